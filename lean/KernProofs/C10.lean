/-
  C10 — Agnostic encoding depends only on staff position and accidental.   (pure part; property theorems)

  One characterisation carries every clause: for every letter, alteration, octave `o : Int` and clef,
  `pitch_to_gkern_string` returns the Humdrum spelling of the pitch whose diatonic index is
  `index(pitch) − index(bottom line of the clef) + index(E4)`, with the same accidental.
-/
import KernModel.Gkern
import KernProofs.C10Doc
import KernProofs.Lemmas.PitchStr
namespace KM.C10
open KM Pitch Gkern

/-- diatonic index of (letter, octave) -/
def dIndex (l : Letter) (o : Int) : Int := 7 * o + l.idx

/-- move a (letter, octave) by `k` diatonic steps -/
def moveSteps (lo : Letter × Int) (k : Int) : Letter × Int :=
  (Letter.ofIdx ((dIndex lo.1 lo.2 + k) % 7), (dIndex lo.1 lo.2 + k) / 7)

theorem Letter.idx_range (l : Letter) : 0 ≤ l.idx ∧ l.idx < 7 := by cases l <;> decide

theorem Letter.idx_ofIdx (i : Int) : (Letter.ofIdx i).idx = i % 7 := by
  have h : 0 ≤ i % 7 ∧ i % 7 < 7 := by omega
  have : i % 7 = 0 ∨ i % 7 = 1 ∨ i % 7 = 2 ∨ i % 7 = 3 ∨ i % 7 = 4 ∨ i % 7 = 5 ∨ i % 7 = 6 := by omega
  unfold Letter.ofIdx
  rcases this with h | h | h | h | h | h | h <;> rw [h] <;> rfl

theorem Letter.ofIdx_idx (l : Letter) : Letter.ofIdx l.idx = l := by cases l <;> rfl

theorem dIndex_moveSteps (lo : Letter × Int) (k : Int) :
    dIndex (moveSteps lo k).1 (moveSteps lo k).2 = dIndex lo.1 lo.2 + k := by
  unfold moveSteps dIndex
  simp only [Letter.idx_ofIdx]
  omega

/-! ### table facts (kernel-decided over the generated tables) -/

/-- decode a bottom-line pitch of the table into (letter, octave); natural notes only -/
def decodeBottom (c : Clef) : Option (Letter × Int) :=
  match bottomLine c with
  | none => none
  | some p => (Letter.all.find? (fun l => p.name == [l.upper])).map (fun l => (l, p.octave))

theorem bottom_table : Clef.all.all (fun c => (decodeBottom c).isSome) = true := by decide +kernel

theorem bottom_G2 : decodeBottom .G2 = some (.E, 4) := by decide +kernel

theorem decodeBottom_spec (c : Clef) (bl : Letter) (bo : Int) (h : decodeBottom c = some (bl, bo)) :
    bottomLine c = some (pitchOf bl 0 bo) := by
  unfold decodeBottom at h
  cases hb : bottomLine c with
  | none => rw [hb] at h; cases h
  | some p =>
    rw [hb] at h
    simp only [Option.map_eq_some_iff] at h
    obtain ⟨l, hl, heq⟩ := h
    have := List.find?_some hl
    simp only [beq_iff_eq] at this
    injection heq with h1 h2
    subst h1; subst h2
    cases p; simp_all [pitchOf, accName]

theorem bottom_exists (c : Clef) : ∃ bl bo, decodeBottom c = some (bl, bo) := by
  have hc : c ∈ Clef.all := by cases c <;> decide
  have := List.all_eq_true.mp bottom_table c hc
  cases h : decodeBottom c with
  | none => rw [h] at this; cases this
  | some lo => exact ⟨lo.1, lo.2, rfl⟩

theorem letterToIndex_table (l : Letter) : lookup [l.upper] Gen.letterToIndex = some l.idx := by
  cases l <;> decide +kernel

theorem setName_upper (l : Letter) : setName [l.upper] = .ok [l.upper] := by cases l <;> decide +kernel

theorem gkernLetters_table (i : Int) (h0 : 0 ≤ i) (h7 : i < 7) :
    Gen.gkernLetters[i.toNat]? = some [(Letter.ofIdx i).lower] := by
  have : i = 0 ∨ i = 1 ∨ i = 2 ∨ i = 3 ∨ i = 4 ∨ i = 5 ∨ i = 6 := by omega
  rcases this with h | h | h | h | h | h | h <;> subst h <;> decide +kernel

/-! ### the steps of `pitch_to_gkern_string` -/

theorem strip_name (l : Letter) (a : Int) : removeC '-' (removeC '+' (l.upper :: accName a)) = [l.upper] := by
  obtain ⟨u1, u2, u3, u4, u5, u6, u7, u8⟩ := l.upper_facts
  have : l.upper :: accName a = [l.upper] ++ accName a := rfl
  rw [this, removeC_append, removeC_append, accName_removed]
  simp [removeC, bne, u2, u3]

theorem letterIndex_pitchOf (l : Letter) (a o : Int) : letterIndex (pitchOf l a o) = .ok l.idx := by
  unfold letterIndex pitchOf
  simp only [strip_name, setName_upper, letterToIndex_table]

theorem accidentals_pitchOf (l : Letter) (a o : Int) : accidentals (pitchOf l a o) = accKern a := by
  obtain ⟨u1, u2, u3, u4, u5, u6, u7, u8⟩ := l.upper_facts
  unfold accidentals pitchOf
  simp only [List.filterMap_cons, u2, u3, Bool.false_eq_true, if_false]
  rcases accKern_cases a with ⟨n, h, h2, _⟩ | ⟨n, h, h2, _⟩ <;> rw [h, h2]
  · induction n with
    | zero => rfl
    | succ n ih => simp [List.replicate_succ, ih]
  · induction n with
    | zero => rfl
    | succ n ih => simp [List.replicate_succ, ih]

theorem spell_append_acc (l : Letter) (a o : Int) : spell l 0 o ++ accKern a = spell l a o := by
  unfold spell; simp [accKern]

/-- the graphic pitch of a staff position: `steps` above the bottom line is `steps + 2` above middle c -/
theorem gkernOfPosition_steps (steps : Int) :
    gkernOfPosition (positionStr steps) =
      .ok (spell (Letter.ofIdx ((steps + 2) % 7)) 0 ((steps + 2) / 7 + 4)) := by
  have hd : (2 * (positionStr steps).2 + (if (positionStr steps).1 then 1 else 0) : Int) = steps + 2 := by
    unfold positionStr
    by_cases h : steps % 2 = 0
    · simp [h]; omega
    · have h' : ¬ (steps % 2 == 0) = true := by simpa using h
      simp [h]; omega
  unfold gkernOfPosition
  simp only [hd]
  rw [gkernLetters_table ((steps + 2) % 7) (by omega) (by omega)]
  simp only
  unfold spell accKern
  by_cases hp : steps + 2 > 0
  · have h4 : (steps + 2) / 7 + 4 ≥ 4 := by omega
    simp only [hp, if_true, h4, repeatS_single]
    have : ((steps + 2) / 7 + 1).toNat = ((steps + 2) / 7 + 4 - 3).toNat := by omega
    simp [this]
  · by_cases hn : steps + 2 < 0
    · have h4 : ¬ (steps + 2) / 7 + 4 ≥ 4 := by omega
      have hu : upperS [(Letter.ofIdx ((steps + 2) % 7)).lower] = [(Letter.ofIdx ((steps + 2) % 7)).upper] := by
        simp [upperS, ((Letter.ofIdx ((steps + 2) % 7)).lower_facts).2.2.2.2.2]
      simp only [hp, hn, if_false, if_true, h4, hu, repeatS_single]
      have : (-((steps + 2) / 7)).toNat = (4 - ((steps + 2) / 7 + 4)).toNat := by omega
      simp [this]
    · have h0 : steps + 2 = 0 := by omega
      simp only [hp, hn, if_false, h0]
      decide

/-- **C10, characterisation.** -/
theorem C10_position (l : Letter) (a o : Int) (c : Clef) (bl : Letter) (bo : Int)
    (hb : decodeBottom c = some (bl, bo)) :
    pitchToGkern (pitchOf l a o) c =
      .ok (spell (Letter.ofIdx ((dIndex l o - dIndex bl bo + 30) % 7)) a ((dIndex l o - dIndex bl bo + 30) / 7)) := by
  unfold pitchToGkern
  rw [decodeBottom_spec c bl bo hb]
  simp only [computePosition, letterIndex_pitchOf, bind, Except.bind, pure, Except.pure, gkernOfPosition_steps,
    accidentals_pitchOf, spell_append_acc]
  unfold dIndex pitchOf
  simp only
  have e1 : ((o - bo) * 7 + (l.idx - bl.idx) + 2) % 7 = (7 * o + l.idx - (7 * bo + bl.idx) + 30) % 7 := by omega
  have e2 : ((o - bo) * 7 + (l.idx - bl.idx) + 2) / 7 + 4 = (7 * o + l.idx - (7 * bo + bl.idx) + 30) / 7 := by omega
  rw [e1, e2]

/-- under G2 the agnostic spelling is the Humdrum spelling of the pitch itself -/
theorem C10_G2_identity (l : Letter) (a o : Int) : pitchToGkern (pitchOf l a o) .G2 = .ok (spell l a o) := by
  rw [C10_position l a o .G2 .E 4 bottom_G2]
  have hr := Letter.idx_range l
  have hE : Letter.idx .E = 2 := rfl
  have e1 : (dIndex l o - dIndex .E 4 + 30) % 7 = l.idx := by unfold dIndex; rw [hE]; omega
  have e2 : (dIndex l o - dIndex .E 4 + 30) / 7 = o := by unfold dIndex; rw [hE]; omega
  rw [e1, e2, Letter.ofIdx_idx]

/-- the result as (letter, octave) -/
def gkernLO (l : Letter) (o : Int) (bl : Letter) (bo : Int) : Letter × Int :=
  (Letter.ofIdx ((dIndex l o - dIndex bl bo + 30) % 7), (dIndex l o - dIndex bl bo + 30) / 7)

/-- under any clef, moving the pitch by `k` diatonic steps moves the agnostic pitch by `k` steps -/
theorem C10_translation (l : Letter) (o k : Int) (bl : Letter) (bo : Int) :
    gkernLO (moveSteps (l, o) k).1 (moveSteps (l, o) k).2 bl bo = moveSteps (gkernLO l o bl bo) k := by
  have h1 := dIndex_moveSteps (l, o) k
  have h2 := dIndex_moveSteps (gkernLO l o bl bo) 0
  unfold gkernLO moveSteps at *
  simp only at h1 ⊢
  rw [h1]
  have h3 : dIndex (Letter.ofIdx ((dIndex l o - dIndex bl bo + 30) % 7)) ((dIndex l o - dIndex bl bo + 30) / 7)
      = dIndex l o - dIndex bl bo + 30 := by
    unfold dIndex; simp only [Letter.idx_ofIdx]; omega
  rw [h3]
  have : dIndex l o + k - dIndex bl bo + 30 = dIndex l o - dIndex bl bo + 30 + k := by omega
  rw [this]

/-- the clef's own bottom-line pitch maps to `e` -/
theorem C10_bottom_is_e (c : Clef) (bl : Letter) (bo : Int) (hb : decodeBottom c = some (bl, bo)) :
    pitchToGkern (pitchOf bl 0 bo) c = .ok ['e'] := by
  rw [C10_position bl 0 bo c bl bo hb]
  have : dIndex bl bo - dIndex bl bo + 30 = 30 := by omega
  rw [this]; decide

/-- every supported clef has a bottom line in the table, so the characterisation applies to all seven -/
theorem C10_all_clefs (l : Letter) (a o : Int) (c : Clef) :
    ∃ bl bo, decodeBottom c = some (bl, bo) ∧
      pitchToGkern (pitchOf l a o) c = .ok (spell (gkernLO l o bl bo).1 a (gkernLO l o bl bo).2) := by
  obtain ⟨bl, bo, hb⟩ := bottom_exists c
  exact ⟨bl, bo, hb, C10_position l a o c bl bo hb⟩

/-! ### octave marks on the clef do not change the position -/

def isMark (c : Char) : Bool := c == '^' || c == 'v'

theorem removeSubAux_no_star (pat : Str) (p0 : Char) (ps : Str) (hp : pat = p0 :: ps) (s : Str)
    (h : ∀ c ∈ s, (c == p0) = false) : removeSubAux pat 0 s = s := by
  induction s with
  | nil => rfl
  | cons c cs ih =>
    have hc : (c == p0) = false := h c List.mem_cons_self
    have hne : ¬ (p0 == c) = true := by
      intro h'; have : p0 = c := by simpa using h'
      subst this; simp at hc
    have : ¬ (pat ≠ [] ∧ pat.isPrefixOf (c :: cs) = true) := by
      rw [hp]; simp only [List.isPrefixOf_cons₂, Bool.and_eq_true]
      intro ⟨_, h1, _⟩; exact hne h1
    unfold removeSubAux
    rw [if_neg this, ih (fun c' hc' => h c' (List.mem_cons_of_mem _ hc'))]

def clefText (sign : Char) (marks : Str) (digit : Char) : Str := clefPrefix ++ sign :: (marks ++ [digit])

theorem removeSub_clefText (sign : Char) (marks : Str) (digit : Char)
    (hs : isClefName sign = true) (hm : ∀ m ∈ marks, isMark m = true) (hd : isDigitC digit = true) :
    removeSub clefPrefix (clefText sign marks digit) = sign :: (marks ++ [digit]) := by
  have hrest : ∀ c ∈ sign :: (marks ++ [digit]), (c == '*') = false := by
    intro c hc
    simp only [List.mem_cons, List.mem_append, List.not_mem_nil, or_false] at hc
    rcases hc with rfl | hc | rfl
    · simp only [isClefName, Bool.or_eq_true, beq_iff_eq] at hs
      rcases hs with (rfl | rfl) | rfl <;> decide
    · have := hm c hc
      simp only [isMark, Bool.or_eq_true, beq_iff_eq] at this
      rcases this with rfl | rfl <;> decide
    · simp only [isDigitC, Bool.and_eq_true, decide_eq_true_eq] at hd
      cases hcd : (c == '*')
      · rfl
      · have : c = '*' := by simpa using hcd
        subst this; simp at hd
  unfold removeSub clefText clefPrefix
  simp only [List.cons_append, List.nil_append]
  unfold removeSubAux
  simp only [ne_eq, reduceCtorEq, not_false_eq_true, List.isPrefixOf_cons₂, BEq.rfl, Bool.true_and, true_and,
    List.isPrefixOf_nil_left, if_true, List.length_cons, List.length_nil]
  simp only [removeSubAux]
  exact removeSubAux_no_star _ '*' ['c','l','e','f'] rfl _ hrest

/-- **octave marks**: a clef text with any number of `^` / `v` marks denotes the same clef as without them -/
theorem C10_marks_ignored (sign : Char) (marks : Str) (digit : Char)
    (hs : isClefName sign = true) (hm : ∀ m ∈ marks, isMark m = true) (hd : isDigitC digit = true) :
    createClef (clefText sign marks digit) = createClef (clefText sign [] digit) := by
  have hmn : ∀ m ∈ marks, isClefName m = false ∧ isDigitC m = false := by
    intro m h
    have := hm m h
    simp only [isMark, Bool.or_eq_true, beq_iff_eq] at this
    rcases this with rfl | rfl <;> exact ⟨by decide, by decide⟩
  have f1 : marks.filter isClefName = [] := List.filter_eq_nil_iff.mpr (fun m h => by simp [(hmn m h).1])
  have f2 : marks.filter isDigitC = [] := List.filter_eq_nil_iff.mpr (fun m h => by simp [(hmn m h).2])
  unfold createClef
  rw [removeSub_clefText sign marks digit hs hm hd, removeSub_clefText sign [] digit hs (by simp) hd]
  simp only [List.filter_cons, List.filter_append, f1, f2, List.nil_append, List.filter_nil]

/-! non-vacuity -/
example : (createClef ['*','c','l','e','f','G','v','v','2']).toOption = some .G2 := by decide +kernel
example : (createClef ['*','c','l','e','f','F','4']).toOption = some .F4 := by decide +kernel
example : (pitchToGkern ⟨['G'], 2⟩ .F4).toOption = some ['e'] := by decide +kernel
example : (pitchToGkern ⟨['C','+'], 4⟩ .F4).toOption = some ['a','a','#'] := by decide +kernel

end KM.C10
