/-
  C10 (document level) — "the clef in force".  The exporter converts a note under the clef it finds in the node's own
  `last_signature_nodes` (`Export.clefOf`).  This file proves that, for every imported document, that table obeys the
  recurrence  sigs(n)[k] = n itself if n is a signature of class k, else sigs(parent n)[k]:
  the clef (key signature, meter …) in force at a cell is the nearest one at or above it on its own spine path
  (parent links = spine paths: `C02Tree.C02_tree`).
-/
import KernModel.Doc
import KernProofs.Lemmas.ImporterInv
import KernProofs.C02Tree
import KernModel.Export
namespace KM.C10D
open Importer
open KM.C02T

theorem lookup_sigsUpdate (sigs : List (TokClass × Coord)) (k k' : TokClass) (c : Coord) :
    lookup k' (sigsUpdate sigs k c) = if k = k' then some c else lookup k' sigs := by
  unfold sigsUpdate
  by_cases hany : sigs.any (fun e => e.1 == k) = true
  · simp only [hany, if_true]
    induction sigs with
    | nil => simp at hany
    | cons e r ih =>
      obtain ⟨ek, ev⟩ := e
      by_cases he : ek = k
      · subst he
        by_cases hk : ek = k'
        · subst hk; simp [lookup]
        · simp only [List.map_cons, beq_self_eq_true, if_true, lookup, hk, if_false]
          have : (ek == k') = false := by simpa using hk
          simp only [this, Bool.false_eq_true, if_false]
          by_cases hr : r.any (fun e => e.1 == ek) = true
          · have := ih hr; simpa [hk] using this
          · -- no further entry with this key: the map is the identity on `r`
            have hid : r.map (fun e => if (e.1 == ek) = true then (ek, c) else e) = r := by
              have hr' : ∀ e ∈ r, (e.1 == ek) = false := by
                intro e he'
                have := hr
                simp only [List.any_eq_true, not_exists, not_and, Bool.not_eq_true] at this
                exact this e he'
              calc r.map (fun e => if (e.1 == ek) = true then (ek, c) else e) = r.map id := by
                    apply List.map_congr_left
                    intro e he'
                    simp [hr' e he']
                _ = r := by simp
            rw [hid]
      · have hek : (ek == k) = false := by simpa using he
        have hr : r.any (fun e => e.1 == k) = true := by simpa [hek] using hany
        have := ih hr
        simp only [List.map_cons, hek, Bool.false_eq_true, if_false, lookup]
        by_cases hk : ek = k'
        · subst hk
          have : k ≠ ek := fun h => he h.symm
          simp [this]
        · have : (ek == k') = false := by simpa using hk
          simp only [this, Bool.false_eq_true, if_false]
          exact ih hr
  · simp only [hany, Bool.false_eq_true, if_false]
    have hnone : ∀ e ∈ sigs, (e.1 == k) = false := by
      intro e he
      simp only [List.any_eq_true, not_exists, not_and, Bool.not_eq_true] at hany
      exact hany e he
    clear hany
    induction sigs with
    | nil =>
      by_cases hk : k = k'
      · subst hk; simp [lookup]
      · have : (k == k') = false := by simpa using hk
        simp [lookup, hk, this]
    | cons e r ih =>
      obtain ⟨ek, ev⟩ := e
      have hek : (ek == k) = false := hnone (ek, ev) (by simp)
      have hne : ek ≠ k := by simpa using hek
      simp only [List.cons_append, lookup]
      by_cases hk : ek = k'
      · subst hk
        have : k ≠ ek := fun h => hne h.symm
        simp [this]
      · have : (ek == k') = false := by simpa using hk
        simp only [this, Bool.false_eq_true, if_false]
        exact ih (fun e he => hnone e (by simp [he]))
/-- the parser is "well classed" on a token: a signature token is neither a barline nor a CORE token (true of every token the
    kern listener builds; checked on every explored document by the correspondence) -/
def WCtok (tk : Tok) : Prop :=
  tk.cls.isSignature = true → (tk.cat == Cat.BARLINES) = false ∧ Hier.isChild hierarchy .CORE tk.cat = false

/-- what a body cell's node inherits: its parent's signature table, updated with itself when it is a signature -/
theorem cellStep_body_sigs (P : CellParser) (row : List Str) (stage : Nat) (acc acc' : RowAcc) (i : Nat) (col : Str)
    (hnh : startsWith ['*', '*'] col = false)
    (h : cellStep P row stage acc i col = .ok acc') :
    ∃ pc p n, Doc.nodeAt acc.st.stages pc = some p ∧ n.parent = some pc ∧
      acc'.st.stages = (addNode acc.st.stages stage n).1 ∧ n.tok.isSome = true ∧
      ∀ tk, n.tok = some tk → WCtok tk →
        n.sigs = if tk.cls.isSignature then sigsUpdate p.sigs tk.cls (addCoord acc.st.stages stage) else p.sigs := by
  unfold cellStep at h
  simp only [hnh, Bool.false_eq_true, if_false, bind, Except.bind, pure, Except.pure] at h
  split at h
  · split at h
    · cases h
    · split at h
      · cases h
      · split at h
        · cases h
        · rename_i hop _ prev hprev _ pc hpc _ p hp
          have key : ∀ tk, (some (Tok.simple TokClass.SpineOperationToken col Cat.SPINE_OPERATION false) = some tk) → WCtok tk →
              p.sigs = if tk.cls.isSignature then sigsUpdate p.sigs tk.cls (addCoord acc.st.stages stage) else p.sigs := by
            intro tk htk _
            cases htk
            rfl
          split at h
          · cases h
            exact ⟨pc, p, ⟨some (.simple .SpineOperationToken col .SPINE_OPERATION false), some pc, p.hdr, p.sigs, lastOpOf acc.st.stages pc⟩, hp, rfl, rfl, rfl, key⟩
          · split at h
            · cases h
              exact ⟨pc, p, ⟨some (.simple .SpineOperationToken col .SPINE_OPERATION false), some pc, p.hdr, p.sigs, lastOpOf acc.st.stages pc⟩, hp, rfl, rfl, rfl, key⟩
            · split at h
              · cases h
                exact ⟨pc, p, ⟨some (.simple .SpineOperationToken col .SPINE_OPERATION false), some pc, p.hdr, p.sigs, lastOpOf acc.st.stages pc⟩, hp, rfl, rfl, rfl, key⟩
              · cases h
  · rename_i hop
    split at h
    · cases h
    · rename_i v hv
      split at h
      · cases h
      · split at h
        · cases h
        · split at h
          · cases h
          · rename_i _ prev hprev _ pc hpc _ p hp
            split at h
            · rename_i hbar
              cases h
              refine ⟨pc, p, ⟨some v.1, some pc, p.hdr, p.sigs, lastOpOf acc.st.stages pc⟩, hp, rfl, rfl, rfl, ?_⟩
              intro tk htk hwc
              cases htk
              by_cases hs : v.1.cls.isSignature = true
              · obtain ⟨w1, w2⟩ := hwc hs
                simp [w1, w2] at hbar
              · simp [hs]
            · split at h
              · rename_i hbb
                cases h
                refine ⟨pc, p, ⟨some v.1, some pc, p.hdr, p.sigs, lastOpOf acc.st.stages pc⟩, hp, rfl, rfl, rfl, ?_⟩
                intro tk htk _
                cases htk
                have : v.1.cls = .BoundingBoxToken := by simpa using hbb
                simp [this, TokClass.isSignature]
              · split at h
                · rename_i hsig
                  cases h
                  refine ⟨pc, p, ⟨some v.1, some pc, p.hdr, sigsUpdate p.sigs v.1.cls (addNode acc.st.stages stage ⟨some v.1, some pc, p.hdr, p.sigs, lastOpOf acc.st.stages pc⟩).2, lastOpOf acc.st.stages pc⟩, hp, rfl, ?_, rfl, ?_⟩
                  · exact addNode_set _ _ _ _
                  · intro tk htk _
                    cases htk
                    simp [hsig, addNode_snd]
                · rename_i hsig
                  cases h
                  refine ⟨pc, p, ⟨some v.1, some pc, p.hdr, p.sigs, lastOpOf acc.st.stages pc⟩, hp, rfl, rfl, rfl, ?_⟩
                  intro tk htk _
                  cases htk
                  simp [hsig]

/-- `add_node` changes nothing but the new coordinate -/
theorem nodeAt_addNode (S : List (List Node)) (stage : Nat) (n : Node) (hs : stage ≤ S.length) (c : Coord) :
    Doc.nodeAt (addNode S stage n).1 c = if c = addCoord S stage then some n else Doc.nodeAt S c := by
  obtain ⟨a, b⟩ := c
  unfold addCoord addNode Doc.nodeAt
  by_cases he : (stage == S.length) = true
  · have e : stage = S.length := by simpa using he
    subst e
    simp only [beq_self_eq_true, if_true]
    rcases Nat.lt_trichotomy a S.length with h | h | h
    · have : (a, b) ≠ (S.length, 0) := by intro h'; cases h'; omega
      simp [this, List.getElem?_append_left h]
    · subst h
      by_cases hb : b = 0
      · subst hb; simp
      · have : (S.length, b) ≠ (S.length, 0) := by intro h'; cases h'; exact hb rfl
        simp only [this, if_false]
        have h1 : (S ++ [[n]])[S.length]? = some [n] := by simp
        have h2 : S[S.length]? = none := by simp
        simp only [h1, h2, Option.bind]
        cases b with
        | zero => exact absurd rfl hb
        | succ b' => simp
    · have : (a, b) ≠ (S.length, 0) := by intro h'; cases h'; omega
      have h1 : (S ++ [[n]])[a]? = none := by simp; omega
      have h2 : S[a]? = none := by simp; omega
      simp [this, h1, h2]
  · have hne : stage ≠ S.length := by simpa using he
    have hlt : stage < S.length := by omega
    simp only [he, Bool.false_eq_true, if_false]
    have hst : S[stage]? = some S[stage] := List.getElem?_eq_getElem hlt
    rw [hst]
    simp only
    by_cases ha : a = stage
    · subst ha
      simp only [List.getElem?_set_self hlt, hst, Option.bind]
      by_cases hb : b = S[a].length
      · subst hb; simp
      · have : (a, b) ≠ (a, S[a].length) := by intro h'; cases h'; exact hb rfl
        simp only [this, if_false]
        rcases Nat.lt_or_ge b S[a].length with h | h
        · simp [List.getElem?_append_left h]
        · have h' : S[a].length < b := by omega
          have h1 : (S[a] ++ [n])[b]? = none := by simp; omega
          have h2 : (S[a])[b]? = none := by simp; omega
          simp [h1, h2]
    · have : (a, b) ≠ (stage, S[stage].length) := by intro h'; cases h'; exact ha rfl
      simp only [this, if_false]
      rw [List.getElem?_set_ne (fun h => ha h.symm)]

theorem nodeAt_fresh (S : List (List Node)) (stage : Nat) (hs : stage ≤ S.length) : Doc.nodeAt S (addCoord S stage) = none := by
  unfold addCoord addNode Doc.nodeAt
  by_cases he : (stage == S.length) = true
  · have e : stage = S.length := by simpa using he
    subst e
    simp
  · have hne : stage ≠ S.length := by simpa using he
    have hlt : stage < S.length := by omega
    simp only [he, Bool.false_eq_true, if_false]
    have hst : S[stage]? = some S[stage] := List.getElem?_eq_getElem hlt
    rw [hst]
    simp [hst]

/-- `n` is itself a signature of class `k` -/
def ownSig (n : Node) (k : TokClass) : Bool :=
  match n.tok with
  | some tk => tk.cls.isSignature && tk.cls == k
  | none => false

/-- what the parent's table says for class `k` -/
def parentSigs (S : List (List Node)) (n : Node) (k : TokClass) : Option Coord :=
  (n.parent.bind (Doc.nodeAt S)).bind (fun p => lookup k p.sigs)

/-- the recurrence at one node -/
def Rec (S : List (List Node)) (c : Coord) (n : Node) : Prop :=
  (∀ tk, n.tok = some tk → WCtok tk) → ∀ k, lookup k n.sigs = if ownSig n k then some c else parentSigs S n k

structure SI (S : List (List Node)) (lastPre : Coord) : Prop where
  recur : ∀ c n, Doc.nodeAt S c = some n → Rec S c n
  par : ∀ c n pc, Doc.nodeAt S c = some n → n.parent = some pc → ∃ p, Doc.nodeAt S pc = some p
  lp : ∃ p, Doc.nodeAt S lastPre = some p ∧ p.sigs = []

theorem ne_fresh (S : List (List Node)) (stage : Nat) (hs : stage ≤ S.length) (c : Coord) (n : Node) (h : Doc.nodeAt S c = some n) :
    c ≠ addCoord S stage := by
  intro e
  rw [e, nodeAt_fresh S stage hs] at h
  cases h

/-- adding a node that inherits (and possibly updates) its parent's table preserves the recurrence everywhere -/
theorem SI_add (S : List (List Node)) (stage : Nat) (n : Node) (lastPre : Coord) (hs : stage ≤ S.length) (h : SI S lastPre)
    (pc : Coord) (p : Node) (hp : Doc.nodeAt S pc = some p) (hpar : n.parent = some pc) (htok : n.tok.isSome = true)
    (hsig : ∀ tk, n.tok = some tk → WCtok tk →
      n.sigs = if tk.cls.isSignature then sigsUpdate p.sigs tk.cls (addCoord S stage) else p.sigs) :
    SI (addNode S stage n).1 lastPre := by
  have hpc : pc ≠ addCoord S stage := ne_fresh S stage hs pc p hp
  have hpS' : Doc.nodeAt (addNode S stage n).1 pc = some p := by rw [nodeAt_addNode S stage n hs, if_neg hpc]; exact hp
  refine ⟨?_, ?_, ?_⟩
  · intro c m hm
    rw [nodeAt_addNode S stage n hs] at hm
    by_cases hc : c = addCoord S stage
    · rw [if_pos hc] at hm
      cases hm
      intro hwc k
      obtain ⟨tk, htk⟩ := Option.isSome_iff_exists.mp htok
      have hs' := hsig tk htk (hwc tk htk)
      have hps : parentSigs (addNode S stage n).1 n k = lookup k p.sigs := by
        simp [parentSigs, hpar, hpS']
      rw [hps, hs', hc]
      by_cases hsg : tk.cls.isSignature = true
      · simp only [hsg, if_true, lookup_sigsUpdate, ownSig, htk, Bool.true_and]
        by_cases hk : tk.cls = k
        · simp [hk]
        · have : (tk.cls == k) = false := by simpa using hk
          simp [hk, this]
      · simp [hsg, ownSig, htk]
    · rw [if_neg hc] at hm
      have hrec := h.recur c m hm
      intro hwc k
      have hps : parentSigs (addNode S stage n).1 m k = parentSigs S m k := by
        unfold parentSigs
        cases hmp : m.parent with
        | none => rfl
        | some pc' =>
          obtain ⟨p', hp'⟩ := h.par c m pc' hm hmp
          have : pc' ≠ addCoord S stage := ne_fresh S stage hs pc' p' hp'
          simp only [Option.bind]
          rw [nodeAt_addNode S stage n hs, if_neg this]
      rw [hps]
      exact hrec hwc k
  · intro c m pc' hm hmp
    rw [nodeAt_addNode S stage n hs] at hm
    by_cases hc : c = addCoord S stage
    · rw [if_pos hc] at hm
      cases hm
      rw [hpar] at hmp
      cases hmp
      exact ⟨p, hpS'⟩
    · rw [if_neg hc] at hm
      obtain ⟨p', hp'⟩ := h.par c m pc' hm hmp
      have : pc' ≠ addCoord S stage := ne_fresh S stage hs pc' p' hp'
      exact ⟨p', by rw [nodeAt_addNode S stage n hs, if_neg this]; exact hp'⟩
  · obtain ⟨lp, hlp, hlps⟩ := h.lp
    have : lastPre ≠ addCoord S stage := ne_fresh S stage hs lastPre lp hlp
    exact ⟨lp, by rw [nodeAt_addNode S stage n hs, if_neg this]; exact hlp, hlps⟩

theorem cellStep_SI (P : CellParser) (row : List Str) (stage : Nat) (acc acc' : RowAcc) (i : Nat) (col : Str)
    (hs : stage ≤ acc.st.stages.length) (h : SI acc.st.stages acc.st.lastPre)
    (hc : cellStep P row stage acc i col = .ok acc') : SI acc'.st.stages acc'.st.lastPre := by
  have hf := (cellStep_frame P row stage acc acc' i col hc).2.2.2
  rw [hf]
  by_cases hh : startsWith ['*', '*'] col = true
  · obtain ⟨hs1, _⟩ := cellStep_header P row stage acc acc' i col hh hc
    rw [hs1]
    obtain ⟨lp, hlp, hlps⟩ := h.lp
    refine SI_add _ stage _ _ hs h acc.st.lastPre lp hlp rfl rfl ?_
    intro tk htk _
    cases htk
    simp [Tok.cls, TokClass.isSignature, hlps]
  · have hh' : startsWith ['*', '*'] col = false := by simpa using hh
    obtain ⟨pc, p, n, hp, hpar, hst, htok, hsig⟩ := cellStep_body_sigs P row stage acc acc' i col hh' hc
    rw [hst]
    exact SI_add _ stage n _ hs h pc p hp hpar htok hsig

theorem cellsLoop_SI (P : CellParser) (row : List Str) (stage : Nat) :
    ∀ (cells : List Str) (acc acc' : RowAcc) (i : Nat), stage ≤ acc.st.stages.length → SI acc.st.stages acc.st.lastPre →
      cellsLoop P row stage acc i cells = .ok acc' → SI acc'.st.stages acc'.st.lastPre := by
  intro cells
  induction cells with
  | nil =>
    intro acc acc' i _ h hc
    simp only [cellsLoop, Except.ok.injEq] at hc
    subst hc
    exact h
  | cons c cs ih =>
    intro acc acc' i hs h hc
    simp only [cellsLoop, bind, Except.bind] at hc
    cases h1 : cellStep P row stage acc i c with
    | error e => rw [h1] at hc; cases hc
    | ok a1 =>
      rw [h1] at hc
      have hl := cellStep_length P row stage acc a1 i c hs h1
      exact ih a1 acc' (i + 1) (by omega) (cellStep_SI P row stage acc a1 i c hs h h1) hc

theorem rowStep_SI (P : CellParser) (st st' : ImpState) (row : List Str) (h : SI st.stages st.lastPre)
    (hr : rowStep P st row = .ok st') : SI st'.stages st'.lastPre := by
  cases row with
  | nil =>
    simp only [rowStep, Except.ok.injEq] at hr
    subst hr
    exact h
  | cons c0 cs =>
    unfold rowStep at hr
    simp only at hr
    by_cases hm : startsWith ['!', '!'] c0 = true
    · simp only [hm, if_true, Except.ok.injEq] at hr
      subst hr
      simp only
      obtain ⟨lp, hlp, hlps⟩ := h.lp
      have h1 := SI_add st.stages st.stages.length
        ⟨some (.simple .MetacommentToken (stripS c0) .LINE_COMMENTS false), some st.lastPre, none, [], none⟩ st.lastPre (Nat.le_refl _) h
        st.lastPre lp hlp rfl rfl (by intro tk htk _; cases htk; simp [Tok.cls, TokClass.isSignature, hlps])
      refine ⟨h1.recur, h1.par, ?_⟩
      refine ⟨⟨some (.simple .MetacommentToken (stripS c0) .LINE_COMMENTS false), some st.lastPre, none, [], none⟩, ?_, rfl⟩
      rw [nodeAt_addNode _ _ _ (Nat.le_refl _), addNode_snd, if_pos rfl]
    · simp only [hm, Bool.false_eq_true, if_false, bind, Except.bind] at hr
      split at hr
      · cases hr
      · rename_i acc hacc
        simp only [pure, Except.pure, Except.ok.injEq] at hr
        have := cellsLoop_SI P (c0 :: cs) st.stages.length (c0 :: cs) _ acc 0 (Nat.le_refl _) (by simpa using h) hacc
        subst hr
        by_cases hb : acc.isBar = true <;> simpa [hb] using this

theorem runRows_SI (P : CellParser) (rows : List (List Str)) :
    ∀ (st st' : ImpState), SI st.stages st.lastPre → runRows P st rows = .ok st' → SI st'.stages st'.lastPre := by
  induction rows with
  | nil =>
    intro st st' h hr
    simp only [runRows, Except.ok.injEq] at hr
    subst hr
    exact h
  | cons r rs ih =>
    intro st st' h hr
    simp only [runRows, bind, Except.bind] at hr
    cases h1 : rowStep P st r with
    | error e => rw [h1] at hr; cases hr
    | ok s1 => rw [h1] at hr; exact ih s1 st' (rowStep_SI P st s1 r h h1) hr

theorem SI_init : SI Importer.init.stages Importer.init.lastPre := by
  have hroot : ∀ c n, Doc.nodeAt [[Doc.rootNode]] c = some n → n = Doc.rootNode := by
    intro c n h
    obtain ⟨a, b⟩ := c
    unfold Doc.nodeAt at h
    cases a with
    | zero =>
      cases b with
      | zero => simp at h; exact h.symm
      | succ b' => simp at h
    | succ a' => simp at h
  refine ⟨?_, ?_, ⟨Doc.rootNode, rfl, rfl⟩⟩
  · intro c n h
    have := hroot c n h
    subst this
    intro _ k
    simp [Doc.rootNode, lookup, ownSig, parentSigs]
  · intro c n pc h hp
    have := hroot c n h
    subst this
    simp [Doc.rootNode] at hp

/-- **C10, the signature table obeys the spine-path recurrence** (every cell parser, every text): at every node, for every
    signature class `k`, the table entry is the node itself when it is a signature of class `k`, and its parent's entry otherwise. -/
theorem C10_sigs_recurrence (P : CellParser) (rows : List (List Str)) (d : Doc) (h : importRows P rows = .ok d)
    (c : Coord) (n : Node) (hn : Doc.nodeAt d.stages c = some n) (hwc : ∀ tk, n.tok = some tk → WCtok tk) (k : TokClass) :
    lookup k n.sigs = if ownSig n k then some c else parentSigs d.stages n k := by
  unfold importRows at h
  cases hr : runRows P Importer.init rows with
  | error e => rw [hr] at h; cases h
  | ok st =>
    rw [hr] at h
    simp only [Except.map, Except.ok.injEq] at h
    subst h
    exact (runRows_SI P rows _ _ SI_init hr).recur c n hn hwc k

/-- **the clef in force passes down a spine path unchanged through every cell that is not a signature** (notes, rests, chords,
    barlines, operators, comments …): the exporter converts such a cell under the same clef as the cell directly above it -/
theorem C10_clef_passes_down (P : CellParser) (rows : List (List Str)) (d : Doc) (h : importRows P rows = .ok d)
    (c pc : Coord) (n p : Node) (hn : Doc.nodeAt d.stages c = some n) (hns : ∀ tk, n.tok = some tk → tk.cls.isSignature = false)
    (hpar : n.parent = some pc) (hp : Doc.nodeAt d.stages pc = some p) :
    Export.clefOf d n = Export.clefOf d p := by
  have hwc : ∀ tk, n.tok = some tk → WCtok tk := fun tk htk hs => by rw [hns tk htk] at hs; cases hs
  have hown : ownSig n .ClefToken = false := by
    unfold ownSig
    cases ht : n.tok with
    | none => rfl
    | some tk => simp [hns tk ht]
  have := C10_sigs_recurrence P rows d h c n hn hwc .ClefToken
  rw [hown] at this
  simp only [Bool.false_eq_true, if_false, parentSigs, hpar, Option.bind, hp] at this
  unfold Export.clefOf
  rw [this]

/-- **a clef cell is the clef in force from itself on** -/
theorem C10_clef_sets (P : CellParser) (rows : List (List Str)) (d : Doc) (h : importRows P rows = .ok d)
    (c : Coord) (n : Node) (tk : Tok) (hn : Doc.nodeAt d.stages c = some n) (ht : n.tok = some tk) (hc : tk.cls = .ClefToken)
    (hwc : WCtok tk) : Export.clefOf d n = some tk.enc := by
  have hown : ownSig n .ClefToken = true := by simp [ownSig, ht, hc, TokClass.isSignature]
  have := C10_sigs_recurrence P rows d h c n hn (fun tk' htk' => by rw [ht] at htk'; cases htk'; exact hwc) .ClefToken
  rw [hown] at this
  simp only [if_true] at this
  unfold Export.clefOf
  rw [this]
  simp [hn, ht]

/-- the same for any cell that is not itself a clef (other signatures included) -/
theorem C10_clef_passes_down' (P : CellParser) (rows : List (List Str)) (d : Doc) (h : importRows P rows = .ok d)
    (c pc : Coord) (n p : Node) (hn : Doc.nodeAt d.stages c = some n) (hwc : ∀ tk, n.tok = some tk → WCtok tk)
    (hnc : ∀ tk, n.tok = some tk → tk.cls ≠ .ClefToken)
    (hpar : n.parent = some pc) (hp : Doc.nodeAt d.stages pc = some p) :
    Export.clefOf d n = Export.clefOf d p := by
  have hown : ownSig n .ClefToken = false := by
    unfold ownSig
    cases ht : n.tok with
    | none => rfl
    | some tk =>
      have : (tk.cls == TokClass.ClefToken) = false := by simpa using hnc tk ht
      simp [this]
  have := C10_sigs_recurrence P rows d h c n hn hwc .ClefToken
  rw [hown] at this
  simp only [Bool.false_eq_true, if_false, parentSigs, hpar, Option.bind, hp] at this
  unfold Export.clefOf
  rw [this]

/-- a downward chain of cells on one spine path below `(c, n)`, none of which is a clef -/
inductive Below (d : Doc) (c : Coord) (n : Node) : Coord → Node → Prop
  | here : Below d c n c n
  | step (c1 c2 : Coord) (n1 n2 : Node) : Below d c n c1 n1 → Doc.nodeAt d.stages c1 = some n1 → Doc.nodeAt d.stages c2 = some n2 →
      n2.parent = some c1 → (∀ tk, n2.tok = some tk → WCtok tk) → (∀ tk, n2.tok = some tk → tk.cls ≠ .ClefToken) → Below d c n c2 n2

/-- **C10, the clef in force.**  Every cell below a cell `(c, n)` on its spine path, with no clef in between, is exported under the
    clef in force at `(c, n)`; with `C10_clef_sets`: under the nearest clef above it on its own spine path. -/
theorem C10_clef_in_force (P : CellParser) (rows : List (List Str)) (d : Doc) (h : importRows P rows = .ok d)
    (c c' : Coord) (n n' : Node) (hb : Below d c n c' n') : Export.clefOf d n' = Export.clefOf d n := by
  induction hb with
  | here => rfl
  | step c1 c2 n1 n2 _ h1 h2 hpar hwc hnc ih =>
    rw [C10_clef_passes_down' P rows d h c2 c1 n2 n1 h2 hwc hnc hpar h1, ih]

/-! non-vacuity: a toy parser, one spine that splits; the clef above the split is the clef in force in both branches -/
def toyP : CellParser := fun _ c =>
  if c == ['*', 'c', 'G'] then some (.simple .ClefToken c .CLEF false)
  else if c == ['*', 'c', 'F'] then some (.simple .ClefToken c .CLEF false)
  else some (.simple .SimpleToken c .OTHER false)
def toyRows : List (List Str) :=
  [[['*', '*', 'k']], [['*', 'c', 'G']], [['a']], [['*', '^']], [['b'], ['*', 'c', 'F']], [['c'], ['d']]]
example : ((importRows toyP toyRows).toOption.map (fun d => (d.stages.getD 6 []).map (Export.clefOf d)))
    = some [some ['*', 'c', 'G'], some ['*', 'c', 'F']] := by decide +kernel

end KM.C10D
