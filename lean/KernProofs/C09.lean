/-
  C09 — Transposition is exact interval arithmetic.   (property theorems)

  `Gen.chromas`, `Gen.chromasByValue`, `Gen.intervals` are regenerated from the source on every run.
  The specification (`Spec.intervalOfName`, `Spec.transposeSpec`) is an independent letter / semitone
  model.  Every statement is for an arbitrary octave `o : Int`.
-/
import KernModel.Pitch
import KernModel.Spec.Interval
import KernProofs.Lemmas.PitchStr
import KernProofs.Lemmas.Chroma
namespace KM.C09
open KM Pitch

/-! ### (1) table theorems -/

/-- for every letter and alteration in [-2,2] the chroma is a base-40 image: distinct, and it follows the
    letter/semitone layout `base(letter) + alteration` with the base-40 letter offsets -/
def base40 : Letter → Int | .C => 2 | .D => 8 | .E => 14 | .F => 19 | .G => 25 | .A => 31 | .B => 37

theorem chroma_table (l : Letter) (a : Int) (ha : -2 ≤ a ∧ a ≤ 2) :
    lookup (l.upper :: accName a) Gen.chromas = some (base40 l + a) := by
  have h : Letter.all.all (fun l => [-2, -1, 0, 1, 2].all (fun a =>
      lookup (l.upper :: accName a) Gen.chromas == some (base40 l + a))) = true := by decide +kernel
  have hl : l ∈ Letter.all := by cases l <;> decide
  have ha' : a ∈ [-2, -1, 0, 1, 2] := by simp; omega
  have := List.all_eq_true.mp (List.all_eq_true.mp h l hl) a ha'
  simpa using this

/-- the only other entries are the four triple flats -/
theorem chroma_table_size : Gen.chromas.length = 39 ∧ (Gen.chromas.map Prod.snd).Nodup ∧ (Gen.chromas.map Prod.fst).Nodup
    ∧ lookup 22 Gen.chromasByValue = none ∧ Gen.chromasByValue.length = 39 := by decide +kernel

/-- the 40 interval names are exactly the named intervals, and every value is the base-40 image of
    (diatonic steps, semitones) derived from the *name* -/
def base40OfIv (iv : Spec.Iv) : Int :=
  -- base-40 distance: letter offset of the step count plus the chromatic surplus
  let stepBase : Int := match iv.steps with | 0 => 0 | 1 => 6 | 2 => 12 | 3 => 17 | 4 => 23 | 5 => 29 | 6 => 35 | _ => 40
  let stepSemis : Int := match iv.steps with | 0 => 0 | 1 => 2 | 2 => 4 | 3 => 5 | 4 => 7 | 5 => 9 | 6 => 11 | _ => 12
  stepBase + (iv.semis - stepSemis)

theorem interval_table :
    Gen.intervals.length = 40 ∧ (Gen.intervals.map Prod.snd).Nodup ∧
    Gen.intervals.all (fun e => match Spec.intervalOfName e.2 with
      | some iv => base40OfIv iv == e.1
      | none => false) = true ∧
    Gen.intervalsByName = Gen.intervals.map (fun e => (e.2, e.1)) := by decide +kernel

/-! ### (2) exactness -/

/-- the finite core at octave 0: all letters × alterations −2..2 × the 40 intervals × 2 directions -/
def coreCase (l : Letter) (a : Int) (e : Int × Str) (s : Int) : Bool :=
  match Spec.intervalOfName e.2 with
  | none => false
  | some iv =>
    let r := Spec.transposeSpec l a 0 iv s
    if r.2.1.natAbs ≤ 2 then
      (match toTransposedDelta (pitchOf l a 0) (s * e.1) with
       | .ok q => q == pitchOf r.1 r.2.1 r.2.2
       | .error _ => false)
    else true

theorem core_all : Letter.all.all (fun l => [-2, -1, 0, 1, 2].all (fun a =>
    Gen.intervals.all (fun e => [1, -1].all (fun s => coreCase l a e s)))) = true := by decide +kernel

theorem core (l : Letter) (a : Int) (ha : -2 ≤ a ∧ a ≤ 2) (e : Int × Str) (he : e ∈ Gen.intervals) (s : Int)
    (hs : s = 1 ∨ s = -1) : coreCase l a e s = true := by
  have hl : l ∈ Letter.all := by cases l <;> decide
  have ha' : a ∈ [-2, -1, 0, 1, 2] := by simp; omega
  have hs' : s ∈ [1, -1] := by simp; exact hs
  exact List.all_eq_true.mp (List.all_eq_true.mp (List.all_eq_true.mp (List.all_eq_true.mp core_all l hl) a ha') e he) s hs'

def signOf (direction : Str) : Int := if direction == Gen.dirUp then 1 else -1

theorem signedDelta_eq (v : Int) (d : Str) : signedDelta v d = signOf d * v := by
  unfold signedDelta signOf; split <;> simp

/-- **C09, exactness.** For every letter, alteration in [−2,2], octave, named interval and direction
    (any direction string: `'up'` is up, everything else is down, as in the code): if the result of the
    letter/semitone specification needs at most two accidentals, `transpose` returns exactly its spelling. -/
theorem C09_exact (l : Letter) (a o : Int) (ha : -2 ≤ a ∧ a ≤ 2) (v : Int) (n : Str) (he : (v, n) ∈ Gen.intervals)
    (dir : Str) (iv : Spec.Iv) (hiv : Spec.intervalOfName n = some iv)
    (hsp : (Spec.transposeSpec l a o iv (signOf dir)).2.1.natAbs ≤ 2) :
    transpose (spell l a o) v dir =
      .ok (spell (Spec.transposeSpec l a o iv (signOf dir)).1 (Spec.transposeSpec l a o iv (signOf dir)).2.1
                 (Spec.transposeSpec l a o iv (signOf dir)).2.2) := by
  have hs : signOf dir = 1 ∨ signOf dir = -1 := by unfold signOf; split <;> simp
  have hc := core l a ha (v, n) he (signOf dir) hs
  rw [transposeSpec_shift] at hsp ⊢
  simp only at hsp ⊢
  unfold coreCase at hc
  simp only [hiv, hsp, if_true] at hc
  unfold transpose
  rw [importHumdrum_spell l a o (by omega)]
  simp only [bind, Except.bind, toTransposed, signedDelta_eq]
  have hshift := toTransposedDelta_shift (pitchOf l a o).name o (signOf dir * v)
  have hp : pitchOf l a o = ⟨(pitchOf l a o).name, o⟩ := rfl
  have hp0 : pitchOf l a 0 = ⟨(pitchOf l a o).name, 0⟩ := rfl
  rw [hp, hshift, ← hp0]
  cases ht : toTransposedDelta (pitchOf l a 0) (signOf dir * v) with
  | error e => rw [ht] at hc; cases hc
  | ok q =>
    rw [ht] at hc
    simp only [beq_iff_eq] at hc
    subst hc
    simp only [Except.map, pure, Except.pure]
    have := exportHumdrum_pitchOf (Spec.transposeSpec l a 0 iv (signOf dir)).1 (Spec.transposeSpec l a 0 iv (signOf dir)).2.1
      ((Spec.transposeSpec l a 0 iv (signOf dir)).2.2 + o)
    simp only [pitchOf] at this ⊢
    rw [this]

/-! ### (3) laws, for every pitch whose name is a key of the chroma table -/

/-- composition: transposing by `a` then by `b` is transposing by `a + b` -/
theorem C09_compose (p q : APitch) (a b : Int) (h : toTransposedDelta p a = .ok q) :
    toTransposedDelta q b = toTransposedDelta p (a + b) := by
  cases hc : lookup p.name Gen.chromas with
  | none => simp [toTransposedDelta, getChroma, hc, bind, Except.bind] at h
  | some c =>
    rw [toTransposedDelta_eq p a c hc] at h
    cases hl : lookup ((40 * p.octave + c + a) % 40) Gen.chromasByValue with
    | none => rw [hl] at h; cases h
    | some nm =>
      rw [hl] at h
      have hq : q = ⟨nm, (40 * p.octave + c + a) / 40⟩ := (Except.ok.inj h).symm
      obtain ⟨hb1, hb2, hb3⟩ := byValue_facts _ _ hl
      subst hq
      rw [toTransposedDelta_eq _ b _ hb1, toTransposedDelta_eq p (a + b) c hc]
      have e : 40 * ((40 * p.octave + c + a) / 40) + (40 * p.octave + c + a) % 40 + b = 40 * p.octave + c + (a + b) := by omega
      simp only [e]

/-- unison is the identity -/
theorem C09_unison (p : APitch) (c : Int) (hc : lookup p.name Gen.chromas = some c) :
    toTransposedDelta p 0 = .ok p := by
  obtain ⟨h0, h40, hinv, _⟩ := chroma_facts _ _ hc
  rw [toTransposedDelta_eq p 0 c hc]
  have e1 : (40 * p.octave + c + 0) % 40 = c := by omega
  have e2 : (40 * p.octave + c + 0) / 40 = p.octave := by omega
  simp only [e1, e2, hinv]

/-- **inverse law**: transposing back by the same amount returns the original pitch -/
theorem C09_inverse (p q : APitch) (δ c : Int) (hc : lookup p.name Gen.chromas = some c)
    (h : toTransposedDelta p δ = .ok q) : toTransposedDelta q (-δ) = .ok p := by
  rw [C09_compose p q δ (-δ) h]
  have : δ + -δ = 0 := by omega
  rw [this]
  exact C09_unison p c hc

/-- an octave keeps the name -/
theorem C09_octave (p : APitch) (c : Int) (hc : lookup p.name Gen.chromas = some c) :
    toTransposedDelta p 40 = .ok ⟨p.name, p.octave + 1⟩ ∧ toTransposedDelta p (-40) = .ok ⟨p.name, p.octave - 1⟩ := by
  obtain ⟨h0, h40, hinv, _⟩ := chroma_facts _ _ hc
  constructor
  · rw [toTransposedDelta_eq p 40 c hc]
    have e1 : (40 * p.octave + c + 40) % 40 = c := by omega
    have e2 : (40 * p.octave + c + 40) / 40 = p.octave + 1 := by omega
    simp only [e1, e2, hinv]
  · rw [toTransposedDelta_eq p (-40) c hc]
    have e1 : (40 * p.octave + c + -40) % 40 = c := by omega
    have e2 : (40 * p.octave + c + -40) / 40 = p.octave - 1 := by omega
    simp only [e1, e2, hinv]

/-- the named intervals behind the laws: P1 = 0, P4 = 17, P5 = 23, octave = 40 in the generated table -/
theorem named_values :
    lookup ['P','1'] Gen.intervalsByName = some 0 ∧ lookup ['P','4'] Gen.intervalsByName = some 17 ∧
    lookup ['P','5'] Gen.intervalsByName = some 23 ∧ lookup ['o','c','t','a','v','e'] Gen.intervalsByName = some 40 := by
  decide +kernel

/-- a fourth followed by a fifth equals an octave (either direction) -/
theorem C09_fourth_fifth (p q : APitch) (s : Int) (h : toTransposedDelta p (s * 17) = .ok q) :
    toTransposedDelta q (s * 23) = toTransposedDelta p (s * 40) := by
  rw [C09_compose p q _ _ h]; congr 1; omega

/-- (4) the call fails exactly when the source name is not in the table or the target chroma is the
    unused slot 22 -/
theorem C09_failure (p : APitch) (δ c : Int) (hc : lookup p.name Gen.chromas = some c) :
    (∃ q, toTransposedDelta p δ = .ok q) ↔ (40 * p.octave + c + δ) % 40 ≠ 22 := by
  rw [toTransposedDelta_eq p δ c hc]
  have hall : ∀ r : Int, 0 ≤ r → r < 40 → r ≠ 22 → (lookup r Gen.chromasByValue).isSome = true := by
    intro r h0 h40 h22
    have h : (List.range 40).all (fun k => k == 22 || (lookup (k : Int) Gen.chromasByValue).isSome) = true := by
      decide +kernel
    have hk := List.all_eq_true.mp h r.toNat (by simp; omega)
    have hr : ((r.toNat : Nat) : Int) = r := by omega
    rw [hr] at hk
    simp only [Bool.or_eq_true, beq_iff_eq] at hk
    rcases hk with hk | hk
    · omega
    · exact hk
  constructor
  · rintro ⟨q, hq⟩ h22
    rw [h22] at hq
    have : lookup (22 : Int) Gen.chromasByValue = none := chroma_table_size.2.2.2.1
    rw [this] at hq; cases hq
  · intro h22
    have := hall ((40 * p.octave + c + δ) % 40) (by omega) (by omega) h22
    cases hl : lookup ((40 * p.octave + c + δ) % 40) Gen.chromasByValue with
    | none => rw [hl] at this; cases this
    | some nm => exact ⟨_, rfl⟩

/-! ### string level: transposing back returns the original spelling -/

/-- every name stored in the table is a canonical name (letter + up to three accidentals) -/
def decodeName (n : Str) : Option (Letter × Int) :=
  (Letter.all.flatMap (fun l => [-3, -2, -1, 0, 1, 2, 3].map (fun a => (l, a)))).find?
    (fun la => n == la.1.upper :: accName la.2)

theorem names_canonical : Gen.chromasByValue.all (fun e => (decodeName e.2).isSome) = true := by decide +kernel

theorem decodeName_spec (n : Str) (l : Letter) (a : Int) (h : decodeName n = some (l, a)) :
    n = l.upper :: accName a ∧ a.natAbs ≤ 3 := by
  unfold decodeName at h
  have h1 := List.find?_some h
  have h2 := List.mem_of_find?_eq_some h
  simp only [beq_iff_eq] at h1
  refine ⟨h1, ?_⟩
  simp only [List.mem_flatMap, List.mem_map] at h2
  obtain ⟨_, _, a', ha', heq⟩ := h2
  have : a' = a := by injection heq
  subst this
  simp at ha'
  omega

/-- **C09, inverse at string level**: if transposing a spelling succeeds, transposing the result back by the
    same interval in the opposite direction (`δ` already signed) returns the original spelling. -/
theorem C09_inverse_spelling (l : Letter) (a o : Int) (ha : -2 ≤ a ∧ a ≤ 2) (δ : Int) (q : APitch)
    (h : toTransposedDelta (pitchOf l a o) δ = .ok q) :
    ∃ l' a' , a'.natAbs ≤ 3 ∧ q = pitchOf l' a' q.octave ∧
      (exportHumdrum q).1 = spell l' a' q.octave ∧
      ((importHumdrum (spell l' a' q.octave)).bind (fun q' => toTransposedDelta q' (-δ))).map (fun r => (exportHumdrum r).1)
        = .ok (spell l a o) := by
  have hc := chroma_table l a ha
  have hinv := C09_inverse (pitchOf l a o) q δ _ hc h
  rw [toTransposedDelta_eq _ δ _ hc] at h
  cases hl : lookup ((40 * (pitchOf l a o).octave + (base40 l + a) + δ) % 40) Gen.chromasByValue with
  | none => rw [hl] at h; cases h
  | some nm =>
    rw [hl] at h
    have hq : q = ⟨nm, (40 * (pitchOf l a o).octave + (base40 l + a) + δ) / 40⟩ := (Except.ok.inj h).symm
    have hm := lookup_mem _ _ _ hl
    have hdec := List.all_eq_true.mp names_canonical _ hm
    cases hd : decodeName nm with
    | none => rw [hd] at hdec; cases hdec
    | some la =>
      obtain ⟨l', a'⟩ := la
      obtain ⟨hn, ha'⟩ := decodeName_spec nm l' a' hd
      have hq' : q = pitchOf l' a' q.octave := by rw [hq]; simp [pitchOf, hn]
      refine ⟨l', a', ha', hq', ?_, ?_⟩
      · have := exportHumdrum_pitchOf l' a' q.octave
        rw [← hq'] at this; rw [this]
      · rw [importHumdrum_spell l' a' q.octave ha', ← hq']
        simp only [Except.bind, hinv, Except.map, exportHumdrum_pitchOf]

/-! non-vacuity -/
example : (transpose ['e','-'] 6 ['u','p']).toOption = some ['f'] := by decide +kernel
example : (['M','2'] : Str) ∈ Gen.intervals.map Prod.snd ∧ Spec.intervalOfName ['M','2'] = some ⟨1, 2⟩ := by decide +kernel
example : Spec.transposeSpec .E (-1) 4 ⟨1, 2⟩ 1 = (.F, 0, 4) := by decide +kernel
example : (toTransposedDelta ⟨['F','+','+'], 4⟩ 1).toOption = none := by decide +kernel

end KM.C09
