/-
  C12 (document level) — the importer's error list is exactly the error tokens of the tree, line by line and left to right, each
  with its line number and verbatim text: every malformed cell is reported once, in row order, where it stands.
-/
import KernModel.Doc
import KernProofs.Lemmas.ImporterInv
import KernProofs.C02Tree
namespace KM.C12D
open Importer
open KM.C02T

/-- what a node contributes to the error list when it stands on line `line` -/
def errOf (line : Nat) (n : Node) : List (Nat × Str) :=
  match n.tok with
  | some (.simple .ErrorToken col _ _) => [(line, col)]
  | _ => []

/-- the error tokens of the tree in reading order: (line, text) -/
def errNodes (stages : List (List Node)) : List (Nat × Str) :=
  stages.zipIdx.flatMap (fun si => si.1.flatMap (errOf si.2))

theorem errNodes_append (S0 : List (List Node)) (ns : List Node) :
    errNodes (S0 ++ [ns]) = errNodes S0 ++ ns.flatMap (errOf S0.length) := by
  unfold errNodes
  rw [List.zipIdx_append]
  simp

theorem errNodes_cur (S0 : List (List Node)) (ns : List Node) :
    errNodes (S0 ++ cur ns) = errNodes S0 ++ ns.flatMap (errOf S0.length) := by
  cases ns with
  | nil => simp [cur]
  | cons a l => exact errNodes_append S0 (a :: l)

/-- the parser never hands back an error token itself (the kern importer raises instead; checked on every explored cell) -/
def NoErrTok (P : CellParser) : Prop := ∀ h c t, P h c = some t → t.cls ≠ .ErrorToken

theorem errOf_of_cls_ne (line : Nat) (n : Node) (t : Tok) (ht : n.tok = some t) (h : t.cls ≠ .ErrorToken) : errOf line n = [] := by
  unfold errOf
  rw [ht]
  cases t with
  | simple c e k hd =>
    cases c <;> first | rfl | exact absurd rfl h
  | header e i => rfl
  | noteRest nn => rfl
  | chord e ns => rfl

/-- **one cell**: the node it adds, and what it appends to the error list -/
theorem cellStep_err (P : CellParser) (hP : NoErrTok P) (row : List Str) (stage : Nat) (acc acc' : RowAcc) (i : Nat) (col : Str)
    (h : cellStep P row stage acc i col = .ok acc') :
    ∃ n, acc'.st.stages = (addNode acc.st.stages stage n).1 ∧ acc'.st.errors = acc.st.errors ++ errOf acc.st.rowNo n := by
  unfold cellStep at h
  simp only [bind, Except.bind, pure, Except.pure] at h
  split at h
  · -- header cell
    simp only [Except.ok.injEq] at h
    subst h
    refine ⟨⟨some (.header col i), some acc.st.lastPre, some (addNode acc.st.stages stage ⟨some (.header col i), some acc.st.lastPre, none, [], none⟩).2, [], none⟩, ?_, ?_⟩
    · exact addNode_set _ _ _ _
    · simp [errOf]
  · split at h
    · split at h
      · cases h
      · split at h
        · cases h
        · split at h
          · cases h
          · rename_i _ prev hprev _ pc hpc _ p hp
            split at h
            · cases h
              exact ⟨⟨some (.simple .SpineOperationToken col .SPINE_OPERATION false), some pc, p.hdr, p.sigs, lastOpOf acc.st.stages pc⟩, rfl, by simp [errOf]⟩
            · split at h
              · cases h
                exact ⟨⟨some (.simple .SpineOperationToken col .SPINE_OPERATION false), some pc, p.hdr, p.sigs, lastOpOf acc.st.stages pc⟩, rfl, by simp [errOf]⟩
              · split at h
                · cases h
                  exact ⟨⟨some (.simple .SpineOperationToken col .SPINE_OPERATION false), some pc, p.hdr, p.sigs, lastOpOf acc.st.stages pc⟩, rfl, by simp [errOf]⟩
                · cases h
    · split at h
      · cases h
      · rename_i v hv
        -- which token is it, and was it an error?
        have hv' : (v.2 = true ∧ v.1 = .simple .ErrorToken col .ERROR false) ∨ (v.2 = false ∧ v.1.cls ≠ .ErrorToken) := by
          split at hv
          · cases hv; exact Or.inr ⟨rfl, by simp [Tok.cls]⟩
          · split at hv
            · cases hv
            · split at hv
              · cases hv
              · split at hv
                · cases hv
                · split at hv
                  · cases hv
                  · split at hv
                    · cases hv
                    · split at hv
                      · cases hv
                      · split at hv
                        · rename_i t hPt
                          cases hv
                          exact Or.inr ⟨rfl, hP _ _ _ hPt⟩
                        · cases hv
                          exact Or.inl ⟨rfl, rfl⟩
        have herr : ∀ (n : Node), n.tok = some v.1 →
            (if v.2 = true then acc.st.errors ++ [(acc.st.rowNo, col)] else acc.st.errors) = acc.st.errors ++ errOf acc.st.rowNo n := by
          intro n hn
          rcases hv' with ⟨h1, h2⟩ | ⟨h1, h2⟩
          · simp [h1, errOf, hn, h2]
          · simp [h1, errOf_of_cls_ne _ n v.1 hn h2]
        split at h
        · cases h
        · split at h
          · cases h
          · split at h
            · cases h
            · rename_i _ prev hprev _ pc hpc _ p hp
              split at h
              · cases h
                exact ⟨⟨some v.1, some pc, p.hdr, p.sigs, lastOpOf acc.st.stages pc⟩, rfl, herr _ rfl⟩
              · split at h
                · cases h
                  exact ⟨⟨some v.1, some pc, p.hdr, p.sigs, lastOpOf acc.st.stages pc⟩, rfl, herr _ rfl⟩
                · split at h
                  · cases h
                    refine ⟨⟨some v.1, some pc, p.hdr, sigsUpdate p.sigs v.1.cls (addNode acc.st.stages stage ⟨some v.1, some pc, p.hdr, p.sigs, lastOpOf acc.st.stages pc⟩).2, lastOpOf acc.st.stages pc⟩, ?_, herr _ rfl⟩
                    exact addNode_set _ _ _ _
                  · cases h
                    exact ⟨⟨some v.1, some pc, p.hdr, p.sigs, lastOpOf acc.st.stages pc⟩, rfl, herr _ rfl⟩
theorem cellsLoop_err (P : CellParser) (hP : NoErrTok P) (row : List Str) (S0 : List (List Node)) :
    ∀ (cells : List Str) (ns : List Node) (i : Nat) (acc acc' : RowAcc),
      acc.st.stages = S0 ++ cur ns → acc.st.rowNo = S0.length →
      acc.st.errors = errNodes S0 ++ ns.flatMap (errOf S0.length) →
      cellsLoop P row S0.length acc i cells = .ok acc' →
      ∃ ns', acc'.st.stages = S0 ++ cur ns' ∧ acc'.st.errors = errNodes S0 ++ ns'.flatMap (errOf S0.length) := by
  intro cells
  induction cells with
  | nil =>
    intro ns i acc acc' hst _ he h
    simp only [cellsLoop, Except.ok.injEq] at h
    subst h
    exact ⟨ns, hst, he⟩
  | cons c cs ih =>
    intro ns i acc acc' hst hrn he h
    simp only [cellsLoop, bind, Except.bind] at h
    cases hc : cellStep P row S0.length acc i c with
    | error e => rw [hc] at h; cases h
    | ok a1 =>
      rw [hc] at h
      obtain ⟨n, k1, k2⟩ := cellStep_err P hP row S0.length acc a1 i c hc
      rw [hst, addNode_cur] at k1
      have k1' : a1.st.stages = S0 ++ cur (ns ++ [n]) := by rw [cur_append_singleton]; exact k1
      have hf := cellStep_frame P row S0.length acc a1 i c hc
      refine ih (ns ++ [n]) (i + 1) a1 acc' k1' (by rw [hf.2.1]; exact hrn) ?_ h
      rw [k2, he, hrn]
      simp

/-- the invariant between lines -/
def EI (st : ImpState) : Prop := st.errors = errNodes st.stages ∧ st.rowNo = st.stages.length

theorem rowStep_err (P : CellParser) (hP : NoErrTok P) (st st' : ImpState) (row : List Str) (h : EI st)
    (hr : rowStep P st row = .ok st') : EI st' := by
  cases row with
  | nil =>
    simp only [rowStep, Except.ok.injEq] at hr
    subst hr
    exact h
  | cons c0 cs =>
    unfold rowStep at hr
    simp only at hr
    by_cases hm : startsWith ['!', '!'] c0 = true
    · simp only [hm, if_true, Except.ok.injEq, addNode_new] at hr
      subst hr
      refine ⟨?_, ?_⟩
      · simp only
        rw [errNodes_append, h.1]
        simp [errOf]
      · simp [h.2]
    · simp only [hm, Bool.false_eq_true, if_false, bind, Except.bind] at hr
      split at hr
      · cases hr
      · rename_i acc hacc
        simp only [pure, Except.pure, Except.ok.injEq] at hr
        obtain ⟨ns', g1, g2⟩ := cellsLoop_err P hP (c0 :: cs) st.stages (c0 :: cs) [] 0 _ acc (by simp [cur]) (by simpa using h.2)
          (by simpa using h.1) hacc
        have hl := cellsLoop_length P (c0 :: cs) st.stages.length _ acc 0 (c0 :: cs) (Nat.le_refl _) (by simp) hacc
        have hf := cellsLoop_frame P (c0 :: cs) st.stages.length _ acc 0 (c0 :: cs) hacc
        simp only at hl hf
        have hne : ns' ≠ [] := by
          intro e
          rw [e] at g1
          have := congrArg List.length g1
          simp [cur] at this
          omega
        have hcur : cur ns' = [ns'] := by
          cases ns' with
          | nil => exact absurd rfl hne
          | cons a l => rfl
        rw [hcur] at g1
        have e1 : st'.stages = st.stages ++ [ns'] ∧ st'.errors = acc.st.errors ∧ st'.rowNo = acc.st.rowNo + 1 := by
          subst hr
          by_cases hb : acc.isBar = true <;> simp [hb, g1]
        obtain ⟨e1, e2, e3⟩ := e1
        refine ⟨?_, ?_⟩
        · rw [e2, g2, e1, errNodes_append]
        · rw [e3, hf.2.1, e1]
          simp [h.2]

theorem runRows_err (P : CellParser) (hP : NoErrTok P) (rows : List (List Str)) :
    ∀ (st st' : ImpState), EI st → runRows P st rows = .ok st' → EI st' := by
  induction rows with
  | nil =>
    intro st st' h hr
    simp only [runRows, Except.ok.injEq] at hr
    subst hr
    exact h
  | cons r rs ih =>
    intro st st' h hr
    simp only [runRows, bind, Except.bind] at hr
    cases h1 : rowStep P st r with
    | error e => rw [h1] at hr; cases hr
    | ok s1 => rw [h1] at hr; exact ih s1 st' (rowStep_err P hP st s1 r h h1) hr

/-- **C12, reported once, in row order, where it stands.**  For every parser that raises on what it rejects and every text, the
    error list of a successful import is exactly the list of error tokens of the tree in reading order, each with the number of
    its (non-empty) line and its verbatim text. -/
theorem C12_errors_are_error_nodes (P : CellParser) (hP : NoErrTok P) (rows : List (List Str)) (d : Doc)
    (h : importRows P rows = .ok d) : d.errors = errNodes d.stages := by
  unfold importRows at h
  cases hr : runRows P Importer.init rows with
  | error e => rw [hr] at h; cases h
  | ok st =>
    rw [hr] at h
    simp only [Except.map, Except.ok.injEq] at h
    subst h
    have : EI Importer.init := ⟨by decide, rfl⟩
    exact (runRows_err P hP rows _ _ this hr).1

/-- with `C02_import_succeeds`: a text without surplus cells always imports, whatever the parser rejects, and reports exactly its
    error tokens -/
theorem C12_import_isolates (P : CellParser) (hP : NoErrTok P) (rows : List (List Str)) (hwf : Spec.Track.wf rows = true)
    (hs : ∀ r ∈ rows, rowStrict r = true) : ∃ d, importRows P rows = .ok d ∧ d.errors = errNodes d.stages := by
  obtain ⟨d, h⟩ := C02_import_succeeds P rows hwf hs
  exact ⟨d, h, C12_errors_are_error_nodes P hP rows d h⟩

/-! non-vacuity: a parser that rejects `x`; two spines, three bad cells -/
def toyP : CellParser := fun _ c => if c == ['x'] then none else some (.simple .SimpleToken c .OTHER false)
def toyRows : List (List Str) := [[['*', '*', 'k'], ['*', '*', 'k']], [['a'], ['x']], [], [['x'], ['x']], [['*', '-'], ['*', '-']]]
example : (importRows toyP toyRows).toOption.map (·.errors) = some [(2, ['x']), (3, ['x']), (3, ['x'])] := by decide +kernel

end KM.C12D
