/- Base-40 lemmas: table facts (kernel-decided over the whole generated tables) and the octave shift. -/
import KernModel.Pitch
import KernModel.Spec.Interval
import KernProofs.Lemmas.PitchStr
import KernProofs.Lemmas.Fin
namespace KM
open Pitch

/-- every entry of `Chromas`: value in [0,40), `ChromasByValue` inverts it, the name is a stored name -/
def chromaEntryOk (e : Str × Int) : Bool :=
  decide (0 ≤ e.2) && decide (e.2 < 40) && (lookup e.2 Gen.chromasByValue == some e.1) &&
  (match setName e.1 with | .ok n => n == e.1 | .error _ => false)

theorem chromas_ok : Gen.chromas.all chromaEntryOk = true := by decide +kernel

/-- every entry of `ChromasByValue`: `Chromas` inverts it -/
def byValueEntryOk (e : Int × Str) : Bool :=
  (lookup e.2 Gen.chromas == some e.1) && decide (0 ≤ e.1) && decide (e.1 < 40)

theorem byValue_ok : Gen.chromasByValue.all byValueEntryOk = true := by decide +kernel

theorem chroma_facts (n : Str) (c : Int) (h : lookup n Gen.chromas = some c) :
    0 ≤ c ∧ c < 40 ∧ lookup c Gen.chromasByValue = some n ∧ setName n = .ok n := by
  have hm := lookup_mem n _ c h
  have := List.all_eq_true.mp chromas_ok _ hm
  simp only [chromaEntryOk, Bool.and_eq_true, decide_eq_true_eq, beq_iff_eq] at this
  obtain ⟨⟨⟨h1, h2⟩, h3⟩, h4⟩ := this
  refine ⟨h1, h2, h3, ?_⟩
  cases hs : setName n with
  | error e => rw [hs] at h4; cases h4
  | ok m => rw [hs] at h4; simp only [beq_iff_eq] at h4; rw [h4]

theorem byValue_facts (v : Int) (n : Str) (h : lookup v Gen.chromasByValue = some n) :
    lookup n Gen.chromas = some v ∧ 0 ≤ v ∧ v < 40 := by
  have hm := lookup_mem v _ n h
  have := List.all_eq_true.mp byValue_ok _ hm
  simp only [byValueEntryOk, Bool.and_eq_true, decide_eq_true_eq, beq_iff_eq] at this
  exact ⟨this.1.1, this.1.2, this.2⟩

/-- what `toTransposedDelta` computes, in one step -/
theorem toTransposedDelta_eq (p : APitch) (δ c : Int) (hc : lookup p.name Gen.chromas = some c) :
    toTransposedDelta p δ =
      match lookup ((40 * p.octave + c + δ) % 40) Gen.chromasByValue with
      | none => .error .keyError
      | some name => .ok ⟨name, (40 * p.octave + c + δ) / 40⟩ := by
  unfold toTransposedDelta getChroma
  simp only [hc, bind, Except.bind]
  cases hl : lookup ((40 * p.octave + c + δ) % 40) Gen.chromasByValue with
  | none => rfl
  | some name =>
    have := (byValue_facts _ _ hl).1
    have hs := (chroma_facts _ _ this).2.2.2
    simp [mk, hs, bind, Except.bind, pure, Except.pure]

/-- **Octave shift**: transposing in octave `o` is transposing in octave 0 and adding `o`. -/
theorem toTransposedDelta_shift (n : Str) (o δ : Int) :
    toTransposedDelta ⟨n, o⟩ δ = (toTransposedDelta ⟨n, 0⟩ δ).map (fun q => ⟨q.name, q.octave + o⟩) := by
  cases hc : lookup n Gen.chromas with
  | none => simp [toTransposedDelta, getChroma, hc, bind, Except.bind, Except.map]
  | some c =>
    rw [toTransposedDelta_eq ⟨n, o⟩ δ c hc, toTransposedDelta_eq ⟨n, 0⟩ δ c hc]
    have e1 : (40 * o + c + δ) % 40 = (40 * 0 + c + δ) % 40 := by omega
    have e2 : (40 * o + c + δ) / 40 = (40 * 0 + c + δ) / 40 + o := by omega
    simp only [e1, e2]
    cases lookup ((40 * 0 + c + δ) % 40) Gen.chromasByValue <;> simp [Except.map]

/-- the specification shifts the same way -/
theorem transposeSpec_shift (l : Letter) (a o : Int) (iv : Spec.Iv) (s : Int) :
    Spec.transposeSpec l a o iv s =
      ((Spec.transposeSpec l a 0 iv s).1, (Spec.transposeSpec l a 0 iv s).2.1, (Spec.transposeSpec l a 0 iv s).2.2 + o) := by
  unfold Spec.transposeSpec
  have e1 : (7 * o + l.idx + s * iv.steps) % 7 = (7 * 0 + l.idx + s * iv.steps) % 7 := by omega
  have e2 : (7 * o + l.idx + s * iv.steps) / 7 = (7 * 0 + l.idx + s * iv.steps) / 7 + o := by omega
  simp only [e1, e2]
  refine Prod.ext rfl (Prod.ext ?_ rfl)
  simp only
  omega

end KM
