/- Invariants of `Importer.cellStep` / `rowStep` / `runRows`, by exhaustive branch analysis. -/
import KernModel.Doc
namespace KM
open Importer

/-- what `addNode` does to the shape -/
theorem addNode_length (stages : List (List Node)) (stage : Nat) (n : Node) (h : stage ≤ stages.length) :
    (addNode stages stage n).1.length = max stages.length (stage + 1) := by
  unfold addNode
  by_cases he : (stage == stages.length) = true
  · have : stage = stages.length := by simpa using he
    simp [he, this]
  · have hne : stage ≠ stages.length := by simpa using he
    have hlt : stage < stages.length := by omega
    simp only [he, Bool.false_eq_true, if_false]
    have : stages[stage]? = some stages[stage] := List.getElem?_eq_getElem hlt
    rw [this]
    simp only [List.length_set]
    omega

/-- the fields a cell never touches -/
theorem cellStep_frame (P : CellParser) (row : List Str) (stage : Nat) (acc acc' : RowAcc) (i : Nat) (col : Str)
    (h : cellStep P row stage acc i col = .ok acc') :
    acc'.st.prev = acc.st.prev ∧ acc'.st.rowNo = acc.st.rowNo ∧ acc'.st.starts = acc.st.starts ∧ acc'.st.lastPre = acc.st.lastPre := by
  unfold cellStep at h
  simp only [bind, Except.bind, pure, Except.pure] at h
  repeat' (first
    | (split at h)
    | (cases h; exact ⟨rfl, rfl, rfl, rfl⟩)
    | (cases h))

theorem cellsLoop_frame (P : CellParser) (row : List Str) (stage : Nat) (acc acc' : RowAcc) (i : Nat) (cells : List Str)
    (h : cellsLoop P row stage acc i cells = .ok acc') :
    acc'.st.prev = acc.st.prev ∧ acc'.st.rowNo = acc.st.rowNo ∧ acc'.st.starts = acc.st.starts ∧ acc'.st.lastPre = acc.st.lastPre := by
  induction cells generalizing acc i with
  | nil => simp only [cellsLoop, Except.ok.injEq] at h; subst h; exact ⟨rfl, rfl, rfl, rfl⟩
  | cons c cs ih =>
    simp only [cellsLoop, bind, Except.bind] at h
    cases hc : cellStep P row stage acc i c with
    | error e => rw [hc] at h; cases h
    | ok a1 =>
      rw [hc] at h
      obtain ⟨h1, h2, h3, h4⟩ := cellStep_frame P row stage acc a1 i c hc
      obtain ⟨g1, g2, g3, g4⟩ := ih a1 (i + 1) h
      exact ⟨g1.trans h1, g2.trans h2, g3.trans h3, g4.trans h4⟩

/-- every successful cell grows the stage list to at least `stage + 1` and never shrinks it -/
theorem cellStep_length (P : CellParser) (row : List Str) (stage : Nat) (acc acc' : RowAcc) (i : Nat) (col : Str)
    (hs : stage ≤ acc.st.stages.length) (h : cellStep P row stage acc i col = .ok acc') :
    acc'.st.stages.length = max acc.st.stages.length (stage + 1) := by
  unfold cellStep at h
  simp only [bind, Except.bind, pure, Except.pure] at h
  repeat' (first
    | (split at h)
    | (cases h; simp only [List.length_set]; exact addNode_length _ _ _ hs)
    | (cases h))

theorem cellsLoop_length (P : CellParser) (row : List Str) (stage : Nat) (acc acc' : RowAcc) (i : Nat) (cells : List Str)
    (hs : stage ≤ acc.st.stages.length) (hne : cells ≠ []) (h : cellsLoop P row stage acc i cells = .ok acc') :
    acc'.st.stages.length = max acc.st.stages.length (stage + 1) := by
  induction cells generalizing acc i with
  | nil => exact absurd rfl hne
  | cons c cs ih =>
    simp only [cellsLoop, bind, Except.bind] at h
    cases hc : cellStep P row stage acc i c with
    | error e => rw [hc] at h; cases h
    | ok a1 =>
      rw [hc] at h
      have h1 := cellStep_length P row stage acc a1 i c hs hc
      cases cs with
      | nil => simp only [cellsLoop, Except.ok.injEq] at h; subst h; exact h1
      | cons c2 cs2 =>
        have := ih a1 (i + 1) (by omega) (by simp) h
        omega

/-- **one stage per non-empty line**, and the measure index only ever gets the stage of the current row appended -/
theorem rowStep_shape (P : CellParser) (st st' : ImpState) (row : List Str) (hne : row ≠ [])
    (h : rowStep P st row = .ok st') :
    st'.stages.length = st.stages.length + 1 ∧ st'.rowNo = st.rowNo + 1 ∧
    (st'.starts = st.starts ∨ st'.starts = st.starts ++ [st.stages.length]) := by
  cases row with
  | nil => exact absurd rfl hne
  | cons c0 cs =>
    unfold rowStep at h
    simp only at h
    by_cases hm : startsWith ['!', '!'] c0 = true
    · simp only [hm, if_true, Except.ok.injEq] at h
      subst h
      refine ⟨?_, rfl, Or.inl rfl⟩
      simp only
      rw [addNode_length _ _ _ (Nat.le_refl _)]
      omega
    · simp only [hm, Bool.false_eq_true, if_false, bind, Except.bind] at h
      split at h
      · cases h
      · rename_i acc hacc
        simp only [pure, Except.pure, Except.ok.injEq] at h
        subst h
        have hl := cellsLoop_length P (c0 :: cs) st.stages.length _ acc 0 (c0 :: cs) (Nat.le_refl _) (by simp) hacc
        have hf := cellsLoop_frame P (c0 :: cs) st.stages.length _ acc 0 (c0 :: cs) hacc
        simp only at hl hf
        refine ⟨?_, ?_, ?_⟩
        · by_cases hb : acc.isBar = true <;> simp [hb, hl]
        · by_cases hb : acc.isBar = true <;> simp [hb, hf.2.1]
        · by_cases hb : acc.isBar = true
          · right; simp [hb, hf.2.2.1]
          · left; simp [hb, hf.2.2.1]

/-- the measure index is strictly increasing and every entry is a stage of the tree -/
def StartsOk (st : ImpState) : Prop := st.starts.Pairwise (· < ·) ∧ ∀ s ∈ st.starts, s < st.stages.length

theorem rowStep_startsOk (P : CellParser) (st st' : ImpState) (row : List Str) (hok : StartsOk st)
    (h : rowStep P st row = .ok st') : StartsOk st' := by
  cases row with
  | nil => simp only [rowStep, Except.ok.injEq] at h; subst h; exact hok
  | cons c0 cs =>
    obtain ⟨hl, _, hs⟩ := rowStep_shape P st st' (c0 :: cs) (by simp) h
    rcases hs with hs | hs
    · rw [StartsOk, hs, hl]; exact ⟨hok.1, fun s hs' => by have := hok.2 s hs'; omega⟩
    · rw [StartsOk, hs, hl]
      refine ⟨?_, ?_⟩
      · apply List.pairwise_append.mpr
        refine ⟨hok.1, by simp, ?_⟩
        intro a ha b hb
        simp only [List.mem_singleton] at hb
        subst hb
        exact hok.2 a ha
      · intro s hs'
        rcases List.mem_append.mp hs' with h1 | h1
        · have := hok.2 s h1; omega
        · simp only [List.mem_singleton] at h1; omega

theorem runRows_startsOk (P : CellParser) (st st' : ImpState) (rows : List (List Str)) (hok : StartsOk st)
    (h : runRows P st rows = .ok st') : StartsOk st' := by
  induction rows generalizing st with
  | nil => simp only [runRows, Except.ok.injEq] at h; subst h; exact hok
  | cons r rs ih =>
    simp only [runRows, bind, Except.bind] at h
    cases hr : rowStep P st r with
    | error e => rw [hr] at h; cases h
    | ok s1 => rw [hr] at h; exact ih s1 (rowStep_startsOk P st s1 r hok hr) h

theorem runRows_stageCount (P : CellParser) (st st' : ImpState) (rows : List (List Str))
    (h : runRows P st rows = .ok st') :
    st'.stages.length = st.stages.length + (rows.filter (fun r => !r.isEmpty)).length := by
  induction rows generalizing st with
  | nil => simp only [runRows, Except.ok.injEq] at h; subst h; simp
  | cons r rs ih =>
    simp only [runRows, bind, Except.bind] at h
    cases hr : rowStep P st r with
    | error e => rw [hr] at h; cases h
    | ok s1 =>
      rw [hr] at h
      have := ih s1 h
      cases r with
      | nil =>
        simp only [rowStep, Except.ok.injEq] at hr; subst hr
        simpa using this
      | cons c0 cs =>
        have hl := (rowStep_shape P st s1 (c0 :: cs) (by simp) hr).1
        simp only [List.filter_cons, List.isEmpty_cons, Bool.not_false, if_true, List.length_cons]
        omega

end KM
