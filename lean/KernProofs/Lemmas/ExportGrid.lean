/- Structure of an export without a measure range: one row per stage, one cell per node of a selected spine. -/
import KernModel.Export
namespace KM
open Export

theorem mapM_filterMap_sel {α β} (sel : α → Bool) (f : α → Except Err (Option β)) (l : List α) :
    (l.mapM (fun a => if !sel a then (.ok none : Except Err (Option β)) else f a)).map (·.filterMap id)
      = ((l.filter sel).mapM f).map (·.filterMap id) := by
  induction l with
  | nil => rfl
  | cons a l ih =>
    by_cases h : sel a = true
    · simp only [List.mapM_cons, h, Bool.not_true, Bool.false_eq_true, if_false, List.filter_cons, if_true, bind, Except.bind]
      cases hf : f a with
      | error e => rfl
      | ok v =>
        simp only [pure, Except.pure]
        cases h1 : l.mapM (fun a => if !sel a then (.ok none : Except Err (Option β)) else f a) with
        | error e =>
          rw [h1] at ih
          cases h2 : (l.filter sel).mapM f with
          | error e' => rw [h2] at ih; simp only [Except.map] at ih ⊢; exact ih
          | ok w => rw [h2] at ih; simp [Except.map] at ih
        | ok u =>
          rw [h1] at ih
          cases h2 : (l.filter sel).mapM f with
          | error e' => rw [h2] at ih; simp [Except.map] at ih
          | ok w =>
            rw [h2] at ih
            simp only [Except.map, Except.ok.injEq] at ih ⊢
            cases v <;> simp [ih]
    · have h' : sel a = false := by simpa using h
      simp only [List.mapM_cons, h', Bool.not_false, if_true, List.filter_cons, Bool.false_eq_true, if_false, bind, Except.bind,
        pure, Except.pure]
      cases h1 : l.mapM (fun a => if !sel a then (.ok none : Except Err (Option β)) else f a) with
      | error e => rw [h1] at ih; simp only [Except.map] at ih ⊢; exact ih
      | ok u =>
        rw [h1] at ih
        simp only [Except.map] at ih ⊢
        rw [← ih]; simp

/-- **a stage row is the row of the selected nodes**: the cells of the nodes whose spine is selected, in order;
    each cell's text depends on the options only through the encoding and the categories -/
theorem rowOfStage_eq (d : Doc) (o : Opts) (st : List Node) :
    rowOfStage d o st =
      ((st.filter (spineSelected d o)).mapM (cellBody d o.cats o.enc)).map (·.filterMap id) := by
  unfold rowOfStage
  have := mapM_filterMap_sel (spineSelected d o) (cellBody d o.cats o.enc) st
  have hfun : appendRow d o = fun n => if !spineSelected d o n then (.ok none : Except Err (Option Str)) else cellBody d o.cats o.enc n := by
    funext n; rfl
  rw [hfun]
  cases h1 : st.mapM (fun n => if !spineSelected d o n then (.ok none : Except Err (Option Str)) else cellBody d o.cats o.enc n) with
  | error e => rw [h1] at this; simp only [bind, Except.bind, Except.map] at this ⊢; exact this
  | ok u => rw [h1] at this; simp only [bind, Except.bind, pure, Except.pure, Except.map] at this ⊢; exact this

/-- no measure range: no preamble, no terminator, every stage from the root to the last -/
theorem exportParts_noRange (d : Doc) (o : Opts) (hf : o.fromM = none) (ht : o.toM = none) :
    exportParts d o = (bodyRows d o 0 (d.stages.length - 1)).map (fun b => ⟨[], b, []⟩) := by
  unfold exportParts
  simp only [validate, fromPart, hf, ht, hasFrom, toStageOf, terminatorFor, bind, Except.bind, pure, Except.pure, Bool.false_eq_true, if_false]
  cases bodyRows d o 0 (d.stages.length - 1) with
  | error e => rfl
  | ok b => rfl

theorem exportString_noRange (d : Doc) (o : Opts) (hf : o.fromM = none) (ht : o.toM = none) :
    exportString d o = (bodyRows d o 0 (d.stages.length - 1)).map (fun b => renderRows (b.map (·.2))) := by
  unfold exportString
  rw [exportParts_noRange d o hf ht]
  cases bodyRows d o 0 (d.stages.length - 1) with
  | error e => rfl
  | ok b => simp [Except.map, Parts.rows]

end KM
