/- `splitOnC` / `joinSep` / `removeC` lemmas. -/
import KernModel.Tokenize
namespace KM

theorem splitOnC_ne_nil (c : Char) (s : Str) : splitOnC c s ≠ [] := by
  induction s with
  | nil => simp [splitOnC]
  | cons x xs ih =>
    unfold splitOnC
    split
    · simp
    · split
      · simp
      · simp

theorem splitOnC_cons_ne (c x : Char) (xs f : Str) (fs : List Str) (h : (x == c) = false)
    (hs : splitOnC c xs = f :: fs) : splitOnC c (x :: xs) = (x :: f) :: fs := by
  conv => lhs; unfold splitOnC
  simp only [h, Bool.false_eq_true, if_false, hs]

theorem splitOnC_noSep (c : Char) (s : Str) (h : ∀ x ∈ s, (x == c) = false) : splitOnC c s = [s] := by
  induction s with
  | nil => rfl
  | cons x xs ih =>
    have hx : (x == c) = false := h x List.mem_cons_self
    have := ih (fun y hy => h y (List.mem_cons_of_mem _ hy))
    exact splitOnC_cons_ne c x _ _ _ hx this

theorem splitOnC_append_sep (c : Char) (s t : Str) (h : ∀ x ∈ s, (x == c) = false) :
    splitOnC c (s ++ c :: t) = s :: splitOnC c t := by
  induction s with
  | nil => simp [splitOnC]
  | cons x xs ih =>
    have hx : (x == c) = false := h x List.mem_cons_self
    have := ih (fun y hy => h y (List.mem_cons_of_mem _ hy))
    simp only [List.cons_append]
    exact splitOnC_cons_ne c x _ _ _ hx this

/-- splitting a join gives the fields back when no field contains the separator (and there is a field) -/
theorem splitOnC_joinSep (c : Char) (xs : List Str) (hne : xs ≠ []) (h : ∀ f ∈ xs, ∀ x ∈ f, (x == c) = false) :
    splitOnC c (joinSep [c] xs) = xs := by
  induction xs with
  | nil => exact absurd rfl hne
  | cons f fs ih =>
    cases fs with
    | nil => simp only [joinSep]; exact splitOnC_noSep c f (h f List.mem_cons_self)
    | cons g gs =>
      simp only [joinSep, List.append_assoc, List.singleton_append]
      rw [splitOnC_append_sep c f _ (h f List.mem_cons_self)]
      rw [ih (by simp) (fun f' hf' => h f' (List.mem_cons_of_mem _ hf'))]

theorem removeC_noSep (c : Char) (s : Str) (h : ∀ x ∈ s, (x == c) = false) : removeC c s = s := by
  unfold removeC
  apply List.filter_eq_self.mpr
  intro x hx
  simp [bne, h x hx]

theorem mem_joinSep (sep : Str) (xs : List Str) (x : Char) (hx : x ∈ joinSep sep xs) :
    x ∈ sep ∨ ∃ f ∈ xs, x ∈ f := by
  induction xs with
  | nil => simp [joinSep] at hx
  | cons f fs ih =>
    cases fs with
    | nil => simp only [joinSep] at hx; exact Or.inr ⟨f, List.mem_cons_self, hx⟩
    | cons g gs =>
      simp only [joinSep, List.mem_append] at hx
      rcases hx with (hx | hx) | hx
      · exact Or.inr ⟨f, List.mem_cons_self, hx⟩
      · exact Or.inl hx
      · rcases ih hx with h | ⟨f', hf', hxf⟩
        · exact Or.inl h
        · exact Or.inr ⟨f', List.mem_cons_of_mem _ hf', hxf⟩

theorem joinSep_map_congr {α} (sep : Str) (f g : α → Str) (l : List α) (h : ∀ a ∈ l, f a = g a) :
    joinSep sep (l.map f) = joinSep sep (l.map g) := by
  have : l.map f = l.map g := List.map_congr_left h
  rw [this]

end KM
