/- Finite-table helpers: lift a kernel-decided statement over `Cat.all` to `∀ c : Cat`. -/
import KernModel.Cat
namespace KM

theorem Cat.mem_all (c : Cat) : c ∈ Cat.all := by
  cases c <;> decide

theorem Cat.forall_of_all {p : Cat → Bool} (h : Cat.all.all p = true) (c : Cat) : p c = true :=
  List.all_eq_true.mp h c (Cat.mem_all c)

theorem Cat.forall2_of_all {p : Cat → Cat → Bool}
    (h : Cat.all.all (fun a => Cat.all.all (p a)) = true) (a b : Cat) : p a b = true :=
  Cat.forall_of_all (Cat.forall_of_all (p := fun a => Cat.all.all (p a)) h a) b

end KM
