/- Finite-table helpers: lift a kernel-decided statement over `Cat.all` to `∀ c : Cat`. -/
import KernModel.Cat
namespace KM

theorem Cat.mem_all (c : Cat) : c ∈ Cat.all := by
  cases c <;> decide

theorem Cat.forall_of_all {p : Cat → Bool} (h : Cat.all.all p = true) (c : Cat) : p c = true :=
  List.all_eq_true.mp h c (Cat.mem_all c)

theorem Cat.forall2_of_all {p : Cat → Cat → Bool}
    (h : Cat.all.all (fun a => Cat.all.all (p a)) = true) (a b : Cat) : p a b = true :=
  Cat.forall_of_all (Cat.forall_of_all (p := fun a => Cat.all.all (p a)) h a) b

theorem lookup_mem {α β} [BEq α] [LawfulBEq α] (k : α) (l : List (α × β)) (v : β) (h : lookup k l = some v) :
    (k, v) ∈ l := by
  induction l with
  | nil => simp [lookup] at h
  | cons x xs ih =>
    obtain ⟨k', v'⟩ := x
    simp only [lookup] at h
    by_cases hk : (k' == k) = true
    · simp only [hk, if_true, Option.some.injEq] at h
      have : k' = k := by simpa using hk
      subst this; subst h; exact List.mem_cons_self
    · simp only [hk] at h
      exact List.mem_cons_of_mem _ (ih h)


end KM
