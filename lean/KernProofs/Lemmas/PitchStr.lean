/- String-level lemmas about Humdrum pitch spellings: `importHumdrum ∘ spell` and `exportHumdrum ∘ pitchOf`. -/
import KernModel.Pitch
namespace KM
open Pitch

namespace Letter
theorem lower_facts (l : Letter) :
    (l.lower == '#') = false ∧ (l.lower == '-') = false ∧ (l.lower == '+') = false ∧
    lowerC l.lower = l.lower ∧ isLowerC l.lower = true ∧ upperC l.lower = l.upper := by
  cases l <;> decide
theorem upper_facts (l : Letter) :
    (l.upper == '#') = false ∧ (l.upper == '-') = false ∧ (l.upper == '+') = false ∧ (l.upper == 'b') = false ∧
    lowerC l.upper = l.lower ∧ isLowerC l.upper = false ∧ isUpperC l.upper = true ∧ upperC l.upper = l.upper := by
  cases l <;> decide
theorem in_pitches (l : Letter) : Gen.pitches.contains [l.upper] = true := by
  cases l <;> decide
end Letter

theorem filter_replicate_false {α} (p : α → Bool) (n : Nat) (c : α) (h : p c = false) :
    (List.replicate n c).filter p = [] := by
  induction n with
  | zero => rfl
  | succ n ih => simp [List.replicate_succ, List.filter_cons, h, ih]

theorem filter_replicate_true {α} (p : α → Bool) (n : Nat) (c : α) (h : p c = true) :
    (List.replicate n c).filter p = List.replicate n c := by
  induction n with
  | zero => rfl
  | succ n ih => simp [List.replicate_succ, List.filter_cons, h, ih]

theorem map_replicate' {α β} (f : α → β) (n : Nat) (c : α) :
    (List.replicate n c).map f = List.replicate n (f c) := by
  simp

/-- the kern accidental string consists of `#` or of `-` -/
theorem accKern_cases (a : Int) :
    (∃ n, accKern a = List.replicate n '#' ∧ accName a = List.replicate n '+' ∧ n = a.natAbs) ∨
    (∃ n, accKern a = List.replicate n '-' ∧ accName a = List.replicate n '-' ∧ n = a.natAbs) := by
  unfold accKern accName
  by_cases h : a ≥ 0
  · left; exact ⟨a.toNat, by simp [h], by simp [h], by omega⟩
  · right; exact ⟨(-a).toNat, by simp [h], by simp [h], by omega⟩

theorem replicate_toNat_pos_low (l : Letter) (o : Int) (h : o ≥ 4) :
    ∃ n, (o - 3).toNat = n + 1 ∧ (n : Int) = o - 4 := ⟨(o - 4).toNat, by omega, by omega⟩

theorem replicate_toNat_pos_high (l : Letter) (o : Int) (h : ¬ o ≥ 4) :
    ∃ n, (4 - o).toNat = n + 1 ∧ (n : Int) = 3 - o := ⟨(3 - o).toNat, by omega, by omega⟩

/-- the name setter accepts a canonical name and stores it unchanged -/
theorem setName_canonical' (l : Letter) (a : Int) :
    setName (l.lower :: accName a) =
      if a.natAbs > 3 then .error .valueError else .ok (l.upper :: accName a) := by
  obtain ⟨h1, h2, h3, h4, h5, h6⟩ := l.lower_facts
  obtain ⟨u1, u2, u3, u4, u5, u6, u7, u8⟩ := l.upper_facts
  have hp := l.in_pitches
  rcases accKern_cases a with ⟨n, _, hn, hnn⟩ | ⟨n, _, hn, hnn⟩
  · rw [hn]
    have e1 : (l.lower :: List.replicate n '+').filter (fun c => c == '-' || c == '+') = List.replicate n '+' := by
      rw [List.filter_cons]; simp only [h2, h3, Bool.or_self, Bool.false_eq_true, if_false]
      exact filter_replicate_true _ _ _ (by decide)
    have e2 : upperS (l.lower :: List.replicate n '+') = l.upper :: List.replicate n '+' := by
      simp only [upperS, List.map_cons, h6, List.map_replicate]; congr
    have e3 : replaceC 'b' '-' (replaceC '#' '+' (l.upper :: List.replicate n '+')) = l.upper :: List.replicate n '+' := by
      simp only [replaceC, List.map_cons, List.map_replicate, u1, u4, Bool.false_eq_true, if_false]
      congr
    have e4 : removeC '-' (removeC '+' (l.upper :: List.replicate n '+')) = [l.upper] := by
      simp only [removeC, List.filter_cons, bne, u3, u2, Bool.not_false, if_true]
      rw [filter_replicate_false _ _ _ (by decide)]; rfl
    simp only [setName, e1, e2, e3, e4, hp, List.length_replicate]
    rw [← hnn]
    simp
  · rw [hn]
    have e1 : (l.lower :: List.replicate n '-').filter (fun c => c == '-' || c == '+') = List.replicate n '-' := by
      rw [List.filter_cons]; simp only [h2, h3, Bool.or_self, Bool.false_eq_true, if_false]
      exact filter_replicate_true _ _ _ (by decide)
    have e2 : upperS (l.lower :: List.replicate n '-') = l.upper :: List.replicate n '-' := by
      simp only [upperS, List.map_cons, h6, List.map_replicate]; congr
    have e3 : replaceC 'b' '-' (replaceC '#' '+' (l.upper :: List.replicate n '-')) = l.upper :: List.replicate n '-' := by
      simp only [replaceC, List.map_cons, List.map_replicate, u1, u4, Bool.false_eq_true, if_false]
      congr
    have e4 : removeC '-' (removeC '+' (l.upper :: List.replicate n '-')) = [l.upper] := by
      simp only [removeC, List.filter_cons, bne, u3, u2, Bool.not_false, if_true]
      rw [filter_replicate_true _ _ _ (by decide), filter_replicate_false _ _ _ (by decide)]
    simp only [setName, e1, e2, e3, e4, hp, List.length_replicate]
    rw [← hnn]
    simp


theorem setName_canonical (l : Letter) (a : Int) (ha : a.natAbs ≤ 3) :
    setName (l.lower :: accName a) = .ok (l.upper :: accName a) := by
  rw [setName_canonical']; simp; omega

theorem filter_acc_spell_body (n : Nat) (c : Char) (t : Str) (p : Char → Bool) (hc : p c = false) (ht : t.filter p = t) :
    (List.replicate n c ++ t).filter p = t := by
  rw [List.filter_append, filter_replicate_false p n c hc, ht]; rfl

theorem accKern_filter (a : Int) : (accKern a).filter (fun c => c == '#' || c == '-') = accKern a := by
  rcases accKern_cases a with ⟨n, h, _, _⟩ | ⟨n, h, _, _⟩ <;> rw [h] <;> exact filter_replicate_true _ _ _ (by decide)

theorem accKern_replace (a : Int) : replaceC '#' '+' (accKern a) = accName a := by
  rcases accKern_cases a with ⟨n, h, h2, _⟩ | ⟨n, h, h2, _⟩ <;> rw [h, h2] <;> simp [replaceC]

theorem accKern_removed (a : Int) : removeC '-' (removeC '#' (accKern a)) = [] := by
  rcases accKern_cases a with ⟨n, h, _, _⟩ | ⟨n, h, _, _⟩ <;> rw [h] <;> unfold removeC
  · rw [filter_replicate_false _ _ _ (by decide)]; rfl
  · rw [filter_replicate_true _ _ _ (by decide), filter_replicate_false _ _ _ (by decide)]

theorem removed_replicate (n : Nat) (c : Char) (h1 : (c == '#') = false) (h2 : (c == '-') = false) :
    removeC '-' (removeC '#' (List.replicate n c)) = List.replicate n c := by
  unfold removeC
  rw [filter_replicate_true _ _ _ (by simp [bne, h1]), filter_replicate_true _ _ _ (by simp [bne, h2])]

theorem removeC_append (a : Char) (s t : Str) : removeC a (s ++ t) = removeC a s ++ removeC a t := by
  simp [removeC]

/-- **Import of a canonical spelling** (any octave, up to three accidentals). -/
theorem importHumdrum_spell (l : Letter) (a o : Int) (ha : a.natAbs ≤ 3) :
    importHumdrum (spell l a o) = .ok (pitchOf l a o) := by
  obtain ⟨h1, h2, h3, h4, h5, h6⟩ := l.lower_facts
  obtain ⟨u1, u2, u3, u4, u5, u6, u7, u8⟩ := l.upper_facts
  unfold importHumdrum parseHumdrum spell pitchOf
  by_cases ho : o ≥ 4
  · obtain ⟨n, hn, hno⟩ := replicate_toNat_pos_low l o ho
    simp only [ho, if_true, hn]
    have f1 : (List.replicate (n + 1) l.lower ++ accKern a).filter (fun c => c == '#' || c == '-') = accKern a :=
      filter_acc_spell_body _ _ _ _ (by simp [h1, h2]) (accKern_filter a)
    have f2 : removeC '-' (removeC '#' (List.replicate (n + 1) l.lower ++ accKern a)) = List.replicate (n + 1) l.lower := by
      rw [removeC_append, removeC_append, accKern_removed, removed_replicate _ _ h1 h2]; simp
    rw [f1, f2, accKern_replace]
    simp only [List.replicate_succ, h4, h5, if_true, List.length_cons, List.length_replicate]
    simp only [bind, Except.bind, mk, setName_canonical l a ha, pure, Except.pure]
    have : Gen.c4Octave + (n : Int) = o := by simp [Gen.c4Octave]; omega
    simp [this]
  · obtain ⟨n, hn, hno⟩ := replicate_toNat_pos_high l o ho
    simp only [ho, if_false, hn]
    have f1 : (List.replicate (n + 1) l.upper ++ accKern a).filter (fun c => c == '#' || c == '-') = accKern a :=
      filter_acc_spell_body _ _ _ _ (by simp [u1, u2]) (accKern_filter a)
    have f2 : removeC '-' (removeC '#' (List.replicate (n + 1) l.upper ++ accKern a)) = List.replicate (n + 1) l.upper := by
      rw [removeC_append, removeC_append, accKern_removed, removed_replicate _ _ u1 u2]; simp
    rw [f1, f2, accKern_replace]
    simp only [List.replicate_succ, u5, u6, u7, if_true, Bool.false_eq_true, if_false, List.length_cons, List.length_replicate]
    simp only [bind, Except.bind, mk, setName_canonical l a ha, pure, Except.pure]
    have : Gen.c3Octave - (n : Int) = o := by simp [Gen.c3Octave]; omega
    simp [this]

theorem repeatS_single (c : Char) (n : Int) : repeatS [c] n = List.replicate n.toNat c := by
  unfold repeatS
  induction n.toNat with
  | zero => rfl
  | succ k ih => simp [List.replicate_succ, ih]

theorem accName_filter (a : Int) : (accName a).filter (fun c => c == '-' || c == '+') = accName a := by
  rcases accKern_cases a with ⟨n, _, h, _⟩ | ⟨n, _, h, _⟩ <;> rw [h] <;> exact filter_replicate_true _ _ _ (by decide)

theorem accName_replace (a : Int) : replaceC '+' '#' (accName a) = accKern a := by
  rcases accKern_cases a with ⟨n, h, h2, _⟩ | ⟨n, h, h2, _⟩ <;> rw [h, h2] <;> simp [replaceC]

theorem accName_removed (a : Int) : removeC '-' (removeC '+' (accName a)) = [] := by
  rcases accKern_cases a with ⟨n, _, h, _⟩ | ⟨n, _, h, _⟩ <;> rw [h] <;> unfold removeC
  · rw [filter_replicate_false _ _ _ (by decide)]; rfl
  · rw [filter_replicate_true _ _ _ (by decide), filter_replicate_false _ _ _ (by decide)]

theorem accOut_accKern (a : Int) : accOutOf (accKern a) = accKern a := by
  unfold accOutOf
  rcases accKern_cases a with ⟨n, h, _, _⟩ | ⟨n, h, _, _⟩ <;> rw [h] <;> cases n <;> simp [List.replicate_succ]

/-- **Export of a canonical pitch** (any octave): the spelling, and the pitch object is unchanged. -/
theorem exportHumdrum_pitchOf (l : Letter) (a o : Int) :
    exportHumdrum (pitchOf l a o) = (spell l a o, pitchOf l a o) := by
  obtain ⟨u1, u2, u3, u4, u5, u6, u7, u8⟩ := l.upper_facts
  unfold exportHumdrum pitchOf spell
  have g1 : (l.upper :: accName a).filter (fun c => c == '-' || c == '+') = accName a := by
    rw [List.filter_cons]; simp only [u2, u3, Bool.or_self, Bool.false_eq_true, if_false]; exact accName_filter a
  have g2 : removeC '-' (removeC '+' (l.upper :: accName a)) = [l.upper] := by
    have : l.upper :: accName a = [l.upper] ++ accName a := rfl
    rw [this, removeC_append, removeC_append, accName_removed]
    simp [removeC, bne, u2, u3]
  simp only [g1, g2, accName_replace, accOut_accKern]
  by_cases ho : o ≥ 4
  · have : o ≥ Gen.expC4Octave := by simp [Gen.expC4Octave]; exact ho
    simp only [this, ho, if_true, lowerS, List.map_cons, List.map_nil, u5, repeatS_single]
    have : (o - Gen.expC4Octave + 1).toNat = (o - 3).toNat := by simp [Gen.expC4Octave]; omega
    rw [this]
  · have : ¬ o ≥ Gen.expC4Octave := by simp [Gen.expC4Octave]; omega
    simp only [this, ho, if_false, upperS, List.map_cons, List.map_nil, u8, repeatS_single]
    have : (Gen.expC3Octave - o + 1).toNat = (4 - o).toNat := by simp [Gen.expC3Octave]; omega
    rw [this]

end KM
