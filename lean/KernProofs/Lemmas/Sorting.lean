/- Order facts for Python string comparison, the decoration sort key, and "sorted set depends only on the set". -/
import KernModel.Tokenize
import KernModel.Spec.CellOut
namespace KM
open Tokz

theorem strLe_refl (a : Str) : strLe a a = true := by
  induction a with
  | nil => rfl
  | cons x xs ih => simp [strLe, ih]

theorem strLe_total (a b : Str) : (strLe a b || strLe b a) = true := by
  induction a generalizing b with
  | nil => simp [strLe]
  | cons x xs ih =>
    cases b with
    | nil => simp [strLe]
    | cons y ys =>
      simp only [strLe]
      by_cases h1 : x.toNat < y.toNat
      · simp [h1]
      · by_cases h2 : y.toNat < x.toNat
        · simp [h1, h2]
        · simp only [h1, h2, if_false]; exact ih ys

theorem strLe_antisymm (a b : Str) (h1 : strLe a b = true) (h2 : strLe b a = true) : a = b := by
  induction a generalizing b with
  | nil => cases b with
    | nil => rfl
    | cons y ys => simp [strLe] at h2
  | cons x xs ih =>
    cases b with
    | nil => simp [strLe] at h1
    | cons y ys =>
      simp only [strLe] at h1 h2
      by_cases hxy : x.toNat < y.toNat
      · have : ¬ y.toNat < x.toNat := by omega
        simp [hxy, this] at h2
      · by_cases hyx : y.toNat < x.toNat
        · simp [hxy, hyx] at h1
        · simp only [hxy, hyx, if_false] at h1 h2
          have : x = y := Char.toNat_inj.mp (by omega)
          rw [this, ih ys h1 h2]

theorem strLe_trans (a b c : Str) (h1 : strLe a b = true) (h2 : strLe b c = true) : strLe a c = true := by
  induction a generalizing b c with
  | nil => simp [strLe]
  | cons x xs ih =>
    cases b with
    | nil => simp [strLe] at h1
    | cons y ys =>
      cases c with
      | nil => simp [strLe] at h2
      | cons z zs =>
        simp only [strLe] at h1 h2 ⊢
        by_cases hxy : x.toNat < y.toNat
        · by_cases hyz : y.toNat < z.toNat
          · have : x.toNat < z.toNat := by omega
            simp [this]
          · by_cases hzy : z.toNat < y.toNat
            · simp [hyz, hzy] at h2
            · have : x.toNat < z.toNat := by omega
              simp [this]
        · by_cases hyx : y.toNat < x.toNat
          · simp [hxy, hyx] at h1
          · simp only [hxy, hyx, if_false] at h1
            have hxy' : x.toNat = y.toNat := by omega
            by_cases hyz : y.toNat < z.toNat
            · have : x.toNat < z.toNat := by omega
              simp [this]
            · by_cases hzy : z.toNat < y.toNat
              · simp [hyz, hzy] at h2
              · simp only [hyz, hzy, if_false] at h2
                have h3 : ¬ x.toNat < z.toNat := by omega
                have h4 : ¬ z.toNat < x.toNat := by omega
                simp only [h3, h4, if_false]
                exact ih ys zs h1 h2

/-! ### the decoration key `(category.value, encoding)` -/

theorem decLe_total (a b : Sub) : (decLe a b || decLe b a) = true := by
  unfold decLe
  by_cases h1 : a.cat.value < b.cat.value
  · simp [h1]
  · by_cases h2 : b.cat.value < a.cat.value
    · simp [h2]
    · have : a.cat.value = b.cat.value := by omega
      have := strLe_total a.enc b.enc
      simp_all

theorem decLe_trans (a b c : Sub) (h1 : decLe a b = true) (h2 : decLe b c = true) : decLe a c = true := by
  unfold decLe at *
  simp only [Bool.or_eq_true, decide_eq_true_eq, Bool.and_eq_true, beq_iff_eq] at *
  rcases h1 with h1 | ⟨h1, h1'⟩ <;> rcases h2 with h2 | ⟨h2, h2'⟩
  · left; omega
  · left; omega
  · left; omega
  · right; exact ⟨by omega, strLe_trans _ _ _ h1' h2'⟩

theorem Cat.value_inj (a b : Cat) (h : a.value = b.value) : a = b := by
  cases a <;> cases b <;> first | rfl | (exact absurd h (by decide))

theorem decLe_antisymm (a b : Sub) (h1 : decLe a b = true) (h2 : decLe b a = true) : a = b := by
  unfold decLe at *
  simp only [Bool.or_eq_true, decide_eq_true_eq, Bool.and_eq_true, beq_iff_eq] at *
  rcases h1 with h1 | ⟨h1, h1'⟩ <;> rcases h2 with h2 | ⟨h2, h2'⟩
  · omega
  · omega
  · omega
  · have hc := Cat.value_inj _ _ h1
    have he := strLe_antisymm _ _ h1' h2'
    cases a; cases b; simp_all

/-- sorting by the decoration key commutes with filtering (the key is antisymmetric, so the sorted list is unique) -/
theorem mergeSort_decLe_filter (l : List Sub) (p : Sub → Bool) :
    (l.filter p).mergeSort decLe = (l.mergeSort decLe).filter p := by
  apply List.Perm.eq_of_pairwise (le := fun a b => decLe a b = true)
  · intro a b _ _ h1 h2; exact decLe_antisymm a b h1 h2
  · exact List.pairwise_mergeSort (fun a b c => decLe_trans a b c) decLe_total _
  · exact (List.pairwise_mergeSort (fun a b c => decLe_trans a b c) decLe_total l).filter p
  · exact (List.mergeSort_perm _ _).trans ((List.mergeSort_perm l decLe).filter p).symm

/-- an already category-ordered pitch/duration list is left as it is by the stable sort, filtered or not -/
theorem mergeSort_pdLe_filter (l : List Sub) (p : Sub → Bool) (h : l.Pairwise (fun a b => pdLe a b = true)) :
    (l.filter p).mergeSort pdLe = (l.mergeSort pdLe).filter p := by
  rw [List.mergeSort_of_pairwise h, List.mergeSort_of_pairwise (h.filter p)]

/-! ### the sorted set of signifiers -/

namespace Spec

theorem mem_insertStr (s x : Str) (l : List Str) : x ∈ insertStr s l ↔ x = s ∨ x ∈ l := by
  induction l with
  | nil => simp [insertStr]
  | cons y r ih =>
    unfold insertStr
    by_cases h1 : (s == y) = true
    · have : s = y := by simpa using h1
      subst this
      simp only [BEq.rfl, if_true, List.mem_cons]
      constructor
      · intro h; exact Or.inr h
      · rintro (h | h); exact Or.inl h; exact h
    · simp only [h1, Bool.false_eq_true, if_false]
      by_cases h2 : strLe s y = true
      · simp [h2]
      · simp only [h2, Bool.false_eq_true, if_false, List.mem_cons, ih]
        constructor
        · rintro (h | h | h); exact Or.inr (Or.inl h); exact Or.inl h; exact Or.inr (Or.inr h)
        · rintro (h | h | h); exact Or.inr (Or.inl h); exact Or.inl h; exact Or.inr (Or.inr h)

theorem mem_sortedSet (x : Str) (l : List Str) : x ∈ sortedSet l ↔ x ∈ l := by
  unfold sortedSet
  induction l with
  | nil => simp
  | cons y r ih => simp only [List.foldr_cons, mem_insertStr, ih, List.mem_cons]

/-- strictly increasing -/
def StrictSorted (l : List Str) : Prop := l.Pairwise (fun a b => strLe a b = true ∧ a ≠ b)

theorem strictSorted_insertStr (s : Str) (l : List Str) (h : StrictSorted l) : StrictSorted (insertStr s l) := by
  induction l with
  | nil => simp [insertStr, StrictSorted]
  | cons y r ih =>
    unfold insertStr
    have hy : ∀ b ∈ r, strLe y b = true ∧ y ≠ b := (List.pairwise_cons.mp h).1
    have hr : StrictSorted r := (List.pairwise_cons.mp h).2
    by_cases h1 : (s == y) = true
    · simp only [h1, if_true]; exact h
    · have hne : s ≠ y := by simpa using h1
      simp only [h1, Bool.false_eq_true, if_false]
      by_cases h2 : strLe s y = true
      · simp only [h2, if_true]
        apply List.pairwise_cons.mpr
        refine ⟨?_, h⟩
        intro b hb
        rcases List.mem_cons.mp hb with rfl | hb
        · exact ⟨h2, hne⟩
        · have := hy b hb
          refine ⟨strLe_trans _ _ _ h2 this.1, ?_⟩
          intro heq; subst heq
          exact this.2 (strLe_antisymm _ _ this.1 h2)
      · simp only [h2, Bool.false_eq_true, if_false]
        have hys : strLe y s = true := by
          have := strLe_total s y; simp only [h2, Bool.false_or] at this; exact this
        apply List.pairwise_cons.mpr
        refine ⟨?_, ih hr⟩
        intro b hb
        rcases (mem_insertStr s b r).mp hb with rfl | hb
        · exact ⟨hys, fun h => hne h.symm⟩
        · exact hy b hb

theorem strictSorted_sortedSet (l : List Str) : StrictSorted (sortedSet l) := by
  unfold sortedSet
  induction l with
  | nil => simp [StrictSorted]
  | cons y r ih => exact strictSorted_insertStr y _ ih

theorem StrictSorted.nodup {l : List Str} (h : StrictSorted l) : l.Nodup :=
  List.Pairwise.imp (fun hab => hab.2) h

/-- two strictly increasing lists with the same members are equal -/
theorem strictSorted_ext (l₁ l₂ : List Str) (h₁ : StrictSorted l₁) (h₂ : StrictSorted l₂)
    (hm : ∀ x, x ∈ l₁ ↔ x ∈ l₂) : l₁ = l₂ := by
  apply List.Perm.eq_of_pairwise (le := fun a b => strLe a b = true ∨ a = b)
  · intro a b _ _ hab hba
    rcases hab with hab | hab
    · rcases hba with hba | hba
      · exact strLe_antisymm a b hab hba
      · exact hba.symm
    · exact hab
  · exact List.Pairwise.imp (fun hab => Or.inl hab.1) h₁
  · exact List.Pairwise.imp (fun hab => Or.inl hab.1) h₂
  · exact (List.perm_ext_iff_of_nodup h₁.nodup h₂.nodup).mpr hm

/-- **canonicity kernel**: the sorted set of signifiers depends only on the *set* — not on order, position or
    repetition -/
theorem sortedSet_congr (l l' : List Str) (h : ∀ x, x ∈ l ↔ x ∈ l') : sortedSet l = sortedSet l' :=
  strictSorted_ext _ _ (strictSorted_sortedSet l) (strictSorted_sortedSet l')
    (fun x => by rw [mem_sortedSet, mem_sortedSet]; exact h x)

theorem sortedSet_idem (l : List Str) : sortedSet (sortedSet l) = sortedSet l :=
  sortedSet_congr _ _ (fun x => mem_sortedSet x l)

end Spec
end KM
