/-
  C02 — the tokens of the imported tree: every node carries the token of its own cell, made by the importer of its own spine.
-/
import KernModel.Doc
import KernModel.Spec.Tracker
import KernModel.Spec.TextExport
import KernProofs.Lemmas.ImporterInv
import KernProofs.C02Tree
namespace KM.C02K
open Importer
open KM.Spec.Track
open KM.C02T

/-- the header text the code looks up for column `i` -/
def modelHdrEnc (acc : RowAcc) (i : Nat) : Option Str :=
  ((((acc.st.prev.bind (·[i]?)).bind (Doc.nodeAt acc.st.stages)).bind (·.hdr)).bind (Doc.nodeAt acc.st.stages)).bind (fun n => n.tok.map (·.enc))

theorem cellStep_tok (P : CellParser) (row : List Str) (stage : Nat) (acc acc' : RowAcc) (i : Nat) (col : Str)
    (h : cellStep P row stage acc i col = .ok acc') :
    ∃ n, acc'.st.stages = (addNode acc.st.stages stage n).1 ∧ n.tok = some (cellTok P (modelHdrEnc acc i) i col) := by
  unfold cellStep at h
  simp only [bind, Except.bind, pure, Except.pure] at h
  split at h
  · rename_i hh
    simp only [Except.ok.injEq] at h
    subst h
    refine ⟨⟨some (.header col i), some acc.st.lastPre, some (addNode acc.st.stages stage ⟨some (.header col i), some acc.st.lastPre, none, [], none⟩).2, [], none⟩, ?_, ?_⟩
    · exact addNode_set _ _ _ _
    · simp [cellTok, hh]
  · rename_i hh
    split at h
    · rename_i hop
      have hk : cellTok P (modelHdrEnc acc i) i col = .simple .SpineOperationToken col .SPINE_OPERATION false := by
        simp [cellTok, hh, hop]
      split at h
      · cases h
      · split at h
        · cases h
        · split at h
          · cases h
          · rename_i _ prev hprev _ pc hpc _ p hp
            split at h
            · cases h
              exact ⟨⟨some (.simple .SpineOperationToken col .SPINE_OPERATION false), some pc, p.hdr, p.sigs, lastOpOf acc.st.stages pc⟩, rfl, by rw [hk]⟩
            · split at h
              · cases h
                exact ⟨⟨some (.simple .SpineOperationToken col .SPINE_OPERATION false), some pc, p.hdr, p.sigs, lastOpOf acc.st.stages pc⟩, rfl, by rw [hk]⟩
              · split at h
                · cases h
                  exact ⟨⟨some (.simple .SpineOperationToken col .SPINE_OPERATION false), some pc, p.hdr, p.sigs, lastOpOf acc.st.stages pc⟩, rfl, by rw [hk]⟩
                · cases h
    · rename_i hop
      split at h
      · cases h
      · rename_i v hv
        have hv1 : v.1 = cellTok P (modelHdrEnc acc i) i col := by
          split at hv
          · rename_i hfc
            cases hv
            simp [cellTok, hh, hop, hfc]
          · rename_i hfc
            split at hv
            · cases hv
            · rename_i _ prev hprev
              split at hv
              · cases hv
              · split at hv
                · cases hv
                · rename_i _ pc hpc
                  split at hv
                  · cases hv
                  · rename_i _ p hp
                    split at hv
                    · cases hv
                    · rename_i _ hc hhc
                      split at hv
                      · cases hv
                      · rename_i _ ht hht
                        have hm : modelHdrEnc acc i = some ht.enc := by
                          unfold modelHdrEnc
                          simp only [hprev, Option.bind, hpc, hp, hhc]
                          cases hn : Doc.nodeAt acc.st.stages hc with
                          | none => rw [hn] at hht; simp at hht
                          | some hnode =>
                            rw [hn] at hht
                            simp only [Option.bind] at hht
                            simp [hht]
                        split at hv
                        · rename_i t hPt
                          cases hv
                          simp [cellTok, hh, hop, hfc, hm, hPt]
                        · rename_i hPt
                          cases hv
                          simp [cellTok, hh, hop, hfc, hm, hPt]
        split at h
        · cases h
        · split at h
          · cases h
          · split at h
            · cases h
            · rename_i _ prev hprev _ pc hpc _ p hp
              split at h
              · cases h
                exact ⟨⟨some v.1, some pc, p.hdr, p.sigs, lastOpOf acc.st.stages pc⟩, rfl, by rw [hv1]⟩
              · split at h
                · cases h
                  exact ⟨⟨some v.1, some pc, p.hdr, p.sigs, lastOpOf acc.st.stages pc⟩, rfl, by rw [hv1]⟩
                · split at h
                  · cases h
                    refine ⟨⟨some v.1, some pc, p.hdr, sigsUpdate p.sigs v.1.cls (addNode acc.st.stages stage ⟨some v.1, some pc, p.hdr, p.sigs, lastOpOf acc.st.stages pc⟩).2, lastOpOf acc.st.stages pc⟩, ?_, by rw [hv1]⟩
                    exact addNode_set _ _ _ _
                  · cases h
                    exact ⟨⟨some v.1, some pc, p.hdr, p.sigs, lastOpOf acc.st.stages pc⟩, rfl, by rw [hv1]⟩
/-! ### the specification: tracker + the texts of the `**` cells + the expected tokens -/

theorem TT.step_t (P : CellParser) (tt : TT) (row : List Str) : (tt.step P row).t = Spec.Track.step tt.t row := by
  cases row with
  | nil => rfl
  | cons c0 cs =>
    simp only [TT.step]
    split <;> rfl

theorem TT.run_t (P : CellParser) (rows : List (List Str)) : ∀ tt : TT, (rows.foldl (TT.step P) tt).t = rows.foldl Spec.Track.step tt.t := by
  induction rows with
  | nil => intro tt; rfl
  | cons r rs ih => intro tt; simp only [List.foldl_cons]; rw [ih, TT.step_t]

/-- the header table agrees with the tree on every live path -/
def HdrOk (S : List (List Node)) (live : List Path) (hdrs : List (Coord × Str)) : Prop :=
  ∀ p ∈ live, ∃ e, lookup p.2 hdrs = some e ∧ (Doc.nodeAt S p.2).bind (fun n => n.tok.map (·.enc)) = some e

theorem HdrOk.mono {S : List (List Node)} {live : List Path} {hdrs : List (Coord × Str)} (h : HdrOk S live hdrs)
    (X : List (List Node)) : HdrOk (S ++ X) live hdrs := by
  intro p hp
  obtain ⟨e, h1, h2⟩ := h p hp
  refine ⟨e, h1, ?_⟩
  cases hn : Doc.nodeAt S p.2 with
  | none => rw [hn] at h2; simp at h2
  | some n =>
    rw [nodeAt_append_left _ _ _ (nodeAt_lt _ _ _ hn), hn]
    rw [hn] at h2
    exact h2

theorem cellTok_congr (P : CellParser) (e1 e2 : Option Str) (i : Nat) (col : Str) (h : isHeaderCell col = true ∨ e1 = e2) :
    cellTok P e1 i col = cellTok P e2 i col := by
  rcases h with h | h
  · simp [cellTok, isHeaderCell] at h ⊢
    simp [h]
  · rw [h]

/-- the header text the code looks up is the specification's -/
theorem modelHdrEnc_eq (tt : TT) (S0 : List (List Node)) (ns : List Node) (acc : RowAcc) (i : Nat)
    (hlive : LiveOk S0 tt.t.live) (hh : HdrOk S0 tt.t.live tt.hdrs)
    (hst : acc.st.stages = S0 ++ cur ns) (hprev : tt.t.live ≠ [] → acc.st.prev = some (tt.t.live.map (·.1)))
    (hlt : i < tt.t.live.length) : modelHdrEnc acc i = specHdr tt i := by
  have hne : tt.t.live ≠ [] := by intro e; rw [e] at hlt; simp at hlt
  have hpp : tt.t.live[i]? = some tt.t.live[i] := List.getElem?_eq_getElem hlt
  obtain ⟨⟨n0, hn0, hn0h⟩, _⟩ := hlive tt.t.live[i] (List.getElem_mem _)
  obtain ⟨e, he1, he2⟩ := hh tt.t.live[i] (List.getElem_mem _)
  have hn0' : Doc.nodeAt acc.st.stages (tt.t.live[i]).1 = some n0 := by
    rw [hst, nodeAt_append_left _ _ _ (nodeAt_lt _ _ _ hn0)]; exact hn0
  have he2' : (Doc.nodeAt acc.st.stages (tt.t.live[i]).2).bind (fun n => n.tok.map (·.enc)) = some e := by
    cases hn : Doc.nodeAt S0 (tt.t.live[i]).2 with
    | none => rw [hn] at he2; simp at he2
    | some n =>
      rw [hst, nodeAt_append_left _ _ _ (nodeAt_lt _ _ _ hn), hn]
      rw [hn] at he2
      exact he2
  unfold modelHdrEnc specHdr
  rw [hprev hne]
  simp only [Option.bind, List.getElem?_map, hpp, Option.map_some, hn0', hn0h]
  rw [he1]
  exact he2'

theorem cellsLoop_tok (P : CellParser) (tt : TT) (S0 : List (List Node)) (row : List Str)
    (hlive : LiveOk S0 tt.t.live) (hh : HdrOk S0 tt.t.live tt.hdrs) :
    ∀ (cells : List Str) (ns : List Node) (i : Nat) (acc acc' : RowAcc),
      ns.length = i →
      acc.st.stages = S0 ++ cur ns →
      (tt.t.live ≠ [] → acc.st.prev = some (tt.t.live.map (·.1))) →
      acc.st.lastPre = tt.t.lastPre →
      (∀ ci ∈ cells.zipIdx i, isHeaderCell ci.1 = true ∨ ci.2 < tt.t.live.length) →
      cellsLoop P row S0.length acc i cells = .ok acc' →
      ∃ ns', acc'.st.stages = S0 ++ cur (ns ++ ns') ∧
        ns'.map (·.tok) = (cells.zipIdx i).map (fun ci => some (cellTok P (specHdr tt ci.2) ci.2 ci.1)) := by
  intro cells
  induction cells with
  | nil =>
    intro ns i acc acc' _ hst _ _ _ h
    simp only [cellsLoop, Except.ok.injEq] at h
    subst h
    exact ⟨[], by simpa using hst, by simp⟩
  | cons c cs ih =>
    intro ns i acc acc' hns hst hprev hlp hwf h
    simp only [cellsLoop, bind, Except.bind] at h
    cases hc : cellStep P row S0.length acc i c with
    | error e => rw [hc] at h; cases h
    | ok acc1 =>
      rw [hc] at h
      obtain ⟨f1, _, _, f4⟩ := cellStep_frame P row S0.length acc acc1 i c hc
      have hwfc := hwf (c, i) (by simp [List.zipIdx_cons])
      have hwf' : ∀ ci ∈ cs.zipIdx (i + 1), isHeaderCell ci.1 = true ∨ ci.2 < tt.t.live.length :=
        fun ci hci => hwf ci (by simp [List.zipIdx_cons, hci])
      obtain ⟨n, k1, _, _, _⟩ := cellStep_track P tt.t S0 row hlive ns i acc acc1 c hns hst hprev hlp hwfc hc
      obtain ⟨n', j1, j2⟩ := cellStep_tok P row S0.length acc acc1 i c hc
      rw [hst, addNode_cur] at j1
      have hnn : n = n' := by
        rw [cur_append_singleton] at k1
        rw [k1] at j1
        have := List.append_cancel_left j1
        simp only [List.cons.injEq, and_true] at this
        have := List.append_cancel_left this
        simpa using this
      subst hnn
      have htok : n.tok = some (cellTok P (specHdr tt i) i c) := by
        rw [j2]
        congr 1
        apply cellTok_congr
        rcases hwfc with h1 | h1
        · exact Or.inl h1
        · exact Or.inr (modelHdrEnc_eq tt S0 ns acc i hlive hh hst hprev h1)
      obtain ⟨ns2, g1, g2⟩ := ih (ns ++ [n]) (i + 1) acc1 acc' (by simp [hns]) k1
        (fun hne => by rw [f1]; exact hprev hne) (by rw [f4]; exact hlp) hwf' h
      refine ⟨n :: ns2, ?_, ?_⟩
      · rw [g1]; simp
      · simp only [List.map_cons, List.zipIdx_cons, g2, htok]

theorem lookup_append {α β} [BEq α] (k : α) (l m : List (α × β)) :
    lookup k (l ++ m) = match lookup k l with | some v => some v | none => lookup k m := by
  induction l with
  | nil => simp [lookup]
  | cons e r ih =>
    obtain ⟨k', v⟩ := e
    simp only [List.cons_append, lookup]
    by_cases h : (k' == k) = true
    · simp [h]
    · simp only [h, Bool.false_eq_true, if_false]; exact ih

theorem lookup_none_of_keys (k : Coord) (l : List (Coord × Str)) (h : ∀ e ∈ l, e.1 ≠ k) : lookup k l = none := by
  induction l with
  | nil => rfl
  | cons e r ih =>
    obtain ⟨k', v⟩ := e
    have : (k' == k) = false := by
      have := h (k', v) (by simp)
      simpa using this
    simp only [lookup, this, Bool.false_eq_true, if_false]
    exact ih (fun e he => h e (by simp [he]))

/-- the table entry written for a `**` cell of the current line is found again -/
theorem lookup_hdr_row (s : Nat) (l : List Str) : ∀ (k : Nat) (c : Str) (i : Nat), (c, i) ∈ l.zipIdx k → isHeaderCell c = true →
    lookup (s, i) ((l.zipIdx k).filterMap (fun ci => if isHeaderCell ci.1 then some ((s, ci.2), ci.1) else none)) = some c := by
  induction l with
  | nil => intro k c i h; simp at h
  | cons a r ih =>
    intro k c i hmem hhd
    simp only [List.zipIdx_cons, List.mem_cons] at hmem
    simp only [List.zipIdx_cons, List.filterMap_cons]
    rcases hmem with heq | hmem
    · cases heq
      simp [hhd, lookup]
    · have hik : k + 1 ≤ i := by
        have := (List.mem_zipIdx_iff_le_and_getElem?_sub (x := (c, i)) (l := r) (k := k + 1)).mp hmem
        exact this.1
      by_cases ha : isHeaderCell a = true
      · simp only [ha, if_true, lookup]
        have : (((s, k) : Coord) == (s, i)) = false := by
          have : k ≠ i := by omega
          simp [this]
        simp only [this, Bool.false_eq_true, if_false]
        exact ih (k + 1) c i hmem hhd
      · simp only [ha, Bool.false_eq_true, if_false]
        exact ih (k + 1) c i hmem hhd

structure Inv2 (st : ImpState) (tt : TT) : Prop where
  inv : Inv st tt.t
  toks : st.stages.map (·.map (·.tok)) = tt.toks
  hdr : HdrOk st.stages tt.t.live tt.hdrs
  keys : ∀ e ∈ tt.hdrs, e.1.1 < st.stages.length

theorem rowStep_tok (P : CellParser) (st st' : ImpState) (tt : TT) (row : List Str) (hinv : Inv2 st tt)
    (hwf : rowWF tt.t row = true) (h : rowStep P st row = .ok st') : Inv2 st' (tt.step P row) := by
  have hI := rowStep_track P st st' tt.t row hinv.inv hwf h
  cases row with
  | nil =>
    simp only [rowStep, Except.ok.injEq] at h
    subst h
    exact hinv
  | cons c0 cs =>
    have hlen := hinv.inv.length
    have hI' : Inv st' (tt.step P (c0 :: cs)).t := by rw [TT.step_t]; exact hI
    unfold rowStep at h
    simp only at h
    by_cases hm : startsWith ['!', '!'] c0 = true
    · simp only [hm, if_true, Except.ok.injEq, addNode_new] at h
      subst h
      refine ⟨hI', ?_, ?_, ?_⟩
      · simp [TT.step, hm, hinv.toks]
      · have : (tt.step P (c0 :: cs)).t.live = tt.t.live := by simp [TT.step, hm, Spec.Track.step]
        rw [this]
        have : (tt.step P (c0 :: cs)).hdrs = tt.hdrs := by simp [TT.step, hm]
        rw [this]
        exact hinv.hdr.mono _
      · intro e he
        have : (tt.step P (c0 :: cs)).hdrs = tt.hdrs := by simp [TT.step, hm]
        rw [this] at he
        have := hinv.keys e he
        simp only [List.length_append, List.length_singleton]
        omega
    · simp only [hm, Bool.false_eq_true, if_false, bind, Except.bind] at h
      split at h
      · cases h
      · rename_i acc hacc
        simp only [pure, Except.pure, Except.ok.injEq] at h
        have hwf' : ∀ ci ∈ (c0 :: cs).zipIdx 0, isHeaderCell ci.1 = true ∨ ci.2 < tt.t.live.length := by
          intro ci hci
          simp only [rowWF, hm, Bool.false_or, List.all_eq_true] at hwf
          have := hwf ci hci
          simpa using this
        obtain ⟨ns', g1, g2⟩ := cellsLoop_tok P tt st.stages (c0 :: cs) hinv.inv.live hinv.hdr (c0 :: cs) [] 0 _ acc
          (by simp) (by simp [cur])
          (fun hne => by simpa [effPrev] using hinv.inv.prev hne) (by simpa using hinv.inv.lastPre) hwf' hacc
        simp only [List.nil_append] at g1
        have hnl : ns'.length = (c0 :: cs).length := by
          have := congrArg List.length g2
          simpa using this
        have hcur : cur ns' = [ns'] := by
          cases ns' with
          | nil => simp at hnl
          | cons a l => rfl
        rw [hcur] at g1
        have e1 : st'.stages = st.stages ++ [ns'] := by
          subst h
          by_cases hb : acc.isBar = true <;> simp [hb, g1]
        have hsteph : (tt.step P (c0 :: cs)).hdrs = tt.hdrs ++ (c0 :: cs).zipIdx.filterMap
            (fun ci => if isHeaderCell ci.1 then some ((tt.t.skel.length, ci.2), ci.1) else none) := by
          simp [TT.step, hm]
        have hstepl : (tt.step P (c0 :: cs)).t.live = (c0 :: cs).zipIdx.flatMap (fun ci => cellNext tt.t tt.t.skel.length (c0 :: cs) ci.2 ci.1) := by
          simp [TT.step, hm, Spec.Track.step]
        refine ⟨hI', ?_, ?_, ?_⟩
        · rw [e1]
          simp [TT.step, hm, hinv.toks, g2]
        · -- the header table on the new live paths
          rw [e1, hstepl, hsteph, hlen]
          intro q hq
          simp only [List.mem_flatMap] at hq
          obtain ⟨ci, hci, hq⟩ := hq
          obtain ⟨c, i⟩ := ci
          have hget : (c0 :: cs)[i]? = some c := by
            have := (List.mem_zipIdx_iff_getElem? (x := (c, i)) (l := c0 :: cs)).mp hci
            simpa using this
          have hi : i < ns'.length := by
            rw [hnl]
            rcases Nat.lt_or_ge i (c0 :: cs).length with h1 | h1
            · exact h1
            · rw [List.getElem?_eq_none_iff.mpr h1] at hget; cases hget
          have htk : (ns'[i]).tok = some (cellTok P (specHdr tt i) i c) := by
            have h1 : (ns'.map (·.tok))[i]? = some (ns'[i]).tok := by simp [List.getElem?_eq_getElem hi]
            rw [g2] at h1
            simp only [List.getElem?_map, List.getElem?_zipIdx, hget, Option.map_some, Nat.zero_add, Option.some.injEq] at h1
            exact h1.symm
          have hnode : Doc.nodeAt (st.stages ++ [ns']) (st.stages.length, i) = some ns'[i] := by
            rw [nodeAt_last]; exact List.getElem?_eq_getElem hi
          unfold cellNext at hq
          by_cases hh : isHeaderCell c = true
          · simp only [hh, if_true, List.mem_singleton] at hq
            subst hq
            refine ⟨c, ?_, ?_⟩
            · rw [lookup_append, lookup_none_of_keys _ _ (fun e he hk => by have := hinv.keys e he; rw [hk] at this; simp at this)]
              simp only
              exact lookup_hdr_row st.stages.length (c0 :: cs) 0 c i hci hh
            · rw [hnode]
              simp only [Option.bind, htk, Option.map_some]
              have : startsWith ['*', '*'] c = true := hh
              simp [cellTok, this, Tok.enc]
          · simp only [hh, Bool.false_eq_true, if_false] at hq
            cases hl : tt.t.live[i]? with
            | none => rw [hl] at hq; simp at hq
            | some p =>
              rw [hl] at hq
              have := emit_mem _ _ _ _ q hq
              subst this
              have hpm : p ∈ tt.t.live := List.mem_of_getElem? hl
              obtain ⟨e, k1, k2⟩ := (hinv.hdr.mono [ns']) p hpm
              refine ⟨e, ?_, k2⟩
              rw [lookup_append, k1]
        · rw [e1, hsteph]
          intro e he
          simp only [List.length_append, List.length_singleton]
          rcases List.mem_append.mp he with h1 | h1
          · have := hinv.keys e h1; omega
          · simp only [List.mem_filterMap] at h1
            obtain ⟨ci, _, hci⟩ := h1
            by_cases hh : isHeaderCell ci.1 = true
            · simp only [hh, if_true, Option.some.injEq] at hci
              rw [← hci]
              simp only
              omega
            · simp [hh] at hci

theorem inv2_init : Inv2 Importer.init TT.init := by
  refine ⟨inv_init, by simp [Importer.init, TT.init, Doc.rootNode], ?_, ?_⟩
  · intro p hp; simp [TT.init, Spec.Track.init] at hp
  · intro e he; simp [TT.init] at he

theorem runRows_tok (P : CellParser) (rows : List (List Str)) :
    ∀ (st st' : ImpState) (tt : TT), Inv2 st tt → wfFrom tt.t rows = true → runRows P st rows = .ok st' →
      Inv2 st' (rows.foldl (TT.step P) tt) := by
  induction rows with
  | nil =>
    intro st st' tt hinv _ h
    simp only [runRows, Except.ok.injEq] at h
    subst h
    exact hinv
  | cons r rs ih =>
    intro st st' tt hinv hwf h
    simp only [runRows, bind, Except.bind] at h
    simp only [wfFrom, Bool.and_eq_true] at hwf
    cases hr : rowStep P st r with
    | error e => rw [hr] at h; cases h
    | ok s1 =>
      rw [hr] at h
      exact ih s1 st' (tt.step P r) (rowStep_tok P st s1 tt r hinv hwf.1 hr) (by rw [TT.step_t]; exact hwf.2) h

/-- **C02, the tokens of the tree.**  Every node carries the token of its own cell: a `**` cell its header token (with its
    column), a spine operator its operator token, a `!` cell a field comment, a `!!` line its comment, and every other cell what
    the importer of *its own spine* (the `**` cell the tracker assigns it to) makes of its text — an error token with the
    verbatim text when that importer rejects it. -/
theorem C02_tokens (P : CellParser) (rows : List (List Str)) (d : Doc) (h : importRows P rows = .ok d) (hwf : wf rows = true) :
    d.stages.map (·.map (·.tok)) = (TT.run P rows).toks := by
  unfold importRows at h
  cases hr : runRows P Importer.init rows with
  | error e => rw [hr] at h; cases h
  | ok st =>
    rw [hr] at h
    simp only [Except.map, Except.ok.injEq] at h
    subst h
    exact (runRows_tok P rows _ _ _ inv2_init hwf hr).toks

/-! non-vacuity: two spines of different types; the parser answers with the spine type in front, so that the header used for each
    cell is visible; `x` is rejected -/
def toyP : CellParser := fun h c => if c == ['x'] then none else some (.simple .SimpleToken (h ++ [':'] ++ c) .OTHER false)
def toyRows : List (List Str) := [[['*', '*', 'a'], ['*', '*', 'b']], [['*', '^'], ['*']], [['1'], ['x'], ['!', 'c']], [['*', 'v'], ['*', 'v'], ['*']], [['2'], ['3']]]
example : wf toyRows = true := by decide +kernel
example : ((TT.run toyP toyRows).toks.getD 3 []) =
    [some (.simple .SimpleToken ['*', '*', 'a', ':', '1'] .OTHER false), some (.simple .ErrorToken ['x'] .ERROR false),
     some (.simple .FieldCommentToken ['!', 'c'] .FIELD_COMMENTS false)] := by decide +kernel
example : ((TT.run toyP toyRows).toks.getD 5 []) =
    [some (.simple .SimpleToken ['*', '*', 'a', ':', '2'] .OTHER false), some (.simple .SimpleToken ['*', '*', 'b', ':', '3'] .OTHER false)] := by
  decide +kernel

end KM.C02K
