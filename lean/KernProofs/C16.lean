/-
  C16 — Pitch spelling codec is lossless and side-effect free.   (property theorems)

  `spell l a o` is the Humdrum spelling: the letter repeated for the octave (lower case from octave 4,
  upper case below), then `a` sharps or `-a` flats.  All statements hold for every octave `o : Int`.
-/
import KernModel.Pitch
import KernModel.Gen.WriteSites
import KernProofs.Lemmas.PitchStr
namespace KM.C16
open KM Pitch

/-- importing a spelling yields the right letter, alteration and octave -/
theorem C16_import (l : Letter) (a o : Int) (ha : a.natAbs ≤ 3) :
    importHumdrum (spell l a o) = .ok ⟨l.upper :: accName a, o⟩ :=
  importHumdrum_spell l a o ha

/-- exporting that pitch returns the same spelling -/
theorem C16_export (l : Letter) (a o : Int) :
    (exportHumdrum ⟨l.upper :: accName a, o⟩).1 = spell l a o := by
  have := exportHumdrum_pitchOf l a o
  unfold pitchOf at this; rw [this]

/-- exporting never alters the pitch object it is given — for *every* pitch object -/
theorem C16_export_pure (p : APitch) : (exportHumdrum p).2 = p := rfl

/-- the code's side of purity: `export_pitch` contains no assignment to an attribute of its argument
    (write-site inventory regenerated from the source by the translator) -/
theorem C16_no_write_sites : Gen.exportPitchWriteSites = [] := by decide

/-- hence exporting twice gives the same answer -/
theorem C16_export_twice (p : APitch) :
    (exportHumdrum (exportHumdrum p).2).1 = (exportHumdrum p).1 := rfl

/-- lossless round trip, string to string -/
theorem C16_roundtrip (l : Letter) (a o : Int) (ha : a.natAbs ≤ 3) :
    (importHumdrum (spell l a o)).map (fun p => (exportHumdrum p).1) = .ok (spell l a o) := by
  rw [C16_import l a o ha]; simp only [Except.map]; rw [C16_export]

/-- more than three accidentals are rejected with `ValueError` -/
theorem C16_rejects_four (l : Letter) (a o : Int) (ha : a.natAbs > 3) :
    ∀ n : Str, n = l.lower :: accName a → mk n (some o) = .error .valueError := by
  intro n hn
  subst hn
  simp only [mk, bind, Except.bind, setName_canonical']
  simp [ha]

/-- distinct (letter, alteration, octave) have distinct spellings on the codec's domain:
    the decoder is a left inverse, so the encoder is injective -/
theorem C16_spell_injective (l l' : Letter) (a a' o o' : Int) (ha : a.natAbs ≤ 3) (ha' : a'.natAbs ≤ 3)
    (h : spell l a o = spell l' a' o') : pitchOf l a o = pitchOf l' a' o' := by
  have h1 := importHumdrum_spell l a o ha
  have h2 := importHumdrum_spell l' a' o' ha'
  rw [h] at h1
  rw [h1] at h2
  exact Except.ok.inj h2

/-! non-vacuity -/
example : spell .C 1 5 = ['c','c','#'] ∧ spell .B (-2) 2 = ['B','B','-','-'] := by decide
example : (importHumdrum ['c','c','#']).toOption = some ⟨['C','+'], 5⟩ := by decide
example : (exportHumdrum ⟨['C','+'], 5⟩).1 = ['c','c','#'] := by decide

end KM.C16
