/-
  C07 (document level) — the measure index is a function of the tree: a measure starts at every line that holds a barline token,
  and the first measure starts at the first line that holds a CORE token when no barline came before it.
-/
import KernModel.Doc
import KernProofs.Lemmas.ImporterInv
import KernProofs.C02Tree
namespace KM.C07D
open Importer
open KM.C02T

/-- does this node open a measure, given the measures opened so far -/
def barCond (starts : List Nat) (n : Node) : Bool :=
  match n.tok with
  | some t => t.cat == Cat.BARLINES || (Hier.isChild hierarchy .CORE t.cat && starts.isEmpty)
  | none => false

/-- the measure index read off the tree, line by line -/
def startsOf : Nat → List Nat → List (List Node) → List Nat
  | _, acc, [] => acc
  | s, acc, st :: rest => startsOf (s + 1) (if st.any (barCond acc) then acc ++ [s] else acc) rest

theorem startsOf_append (s : Nat) (acc : List Nat) (S : List (List Node)) (ns : List Node) :
    startsOf s acc (S ++ [ns]) =
      (if ns.any (barCond (startsOf s acc S)) then startsOf s acc S ++ [s + S.length] else startsOf s acc S) := by
  induction S generalizing s acc with
  | nil => simp [startsOf]
  | cons st r ih =>
    simp only [List.cons_append, startsOf, List.length_cons]
    rw [ih]
    have : s + 1 + r.length = s + (r.length + 1) := by omega
    rw [this]
    rfl

theorem cat_header : (Cat.HEADER == Cat.BARLINES) = false ∧ Hier.isChild hierarchy .CORE .HEADER = false := by decide +kernel
theorem cat_op : (Cat.SPINE_OPERATION == Cat.BARLINES) = false ∧ Hier.isChild hierarchy .CORE .SPINE_OPERATION = false := by decide +kernel
theorem cat_comment : (Cat.LINE_COMMENTS == Cat.BARLINES) = false ∧ Hier.isChild hierarchy .CORE .LINE_COMMENTS = false := by decide +kernel

/-- **one cell**: the node it adds, and whether the line now opens a measure -/
theorem cellStep_bar (P : CellParser) (row : List Str) (stage : Nat) (acc acc' : RowAcc) (i : Nat) (col : Str)
    (h : cellStep P row stage acc i col = .ok acc') :
    ∃ n, acc'.st.stages = (addNode acc.st.stages stage n).1 ∧ acc'.isBar = (acc.isBar || barCond acc.st.starts n) := by
  unfold cellStep at h
  simp only [bind, Except.bind, pure, Except.pure] at h
  split at h
  · simp only [Except.ok.injEq] at h
    subst h
    refine ⟨⟨some (.header col i), some acc.st.lastPre, some (addNode acc.st.stages stage ⟨some (.header col i), some acc.st.lastPre, none, [], none⟩).2, [], none⟩, ?_, ?_⟩
    · exact addNode_set _ _ _ _
    · simp [barCond, Tok.cat, cat_header.1, cat_header.2]
  · split at h
    · split at h
      · cases h
      · split at h
        · cases h
        · split at h
          · cases h
          · rename_i _ prev hprev _ pc hpc _ p hp
            have hb : barCond acc.st.starts ⟨some (.simple .SpineOperationToken col .SPINE_OPERATION false), some pc, p.hdr, p.sigs, lastOpOf acc.st.stages pc⟩ = false := by
              simp [barCond, Tok.cat, cat_op.1, cat_op.2]
            split at h
            · cases h
              exact ⟨⟨some (.simple .SpineOperationToken col .SPINE_OPERATION false), some pc, p.hdr, p.sigs, lastOpOf acc.st.stages pc⟩, rfl, by simp [hb]⟩
            · split at h
              · cases h
                exact ⟨⟨some (.simple .SpineOperationToken col .SPINE_OPERATION false), some pc, p.hdr, p.sigs, lastOpOf acc.st.stages pc⟩, rfl, by simp [hb]⟩
              · split at h
                · cases h
                  exact ⟨⟨some (.simple .SpineOperationToken col .SPINE_OPERATION false), some pc, p.hdr, p.sigs, lastOpOf acc.st.stages pc⟩, rfl, by simp [hb]⟩
                · cases h
    · split at h
      · cases h
      · rename_i v hv
        split at h
        · cases h
        · split at h
          · cases h
          · split at h
            · cases h
            · rename_i _ prev hprev _ pc hpc _ p hp
              split at h
              · rename_i hc
                cases h
                refine ⟨⟨some v.1, some pc, p.hdr, p.sigs, lastOpOf acc.st.stages pc⟩, rfl, ?_⟩
                simp only [barCond]
                rw [hc]; simp
              · rename_i hc
                have hb : ∀ sg, barCond acc.st.starts ⟨some v.1, some pc, p.hdr, sg, lastOpOf acc.st.stages pc⟩ = false := by
                  intro sg
                  simp only [barCond]
                  simpa using hc
                split at h
                · cases h
                  exact ⟨⟨some v.1, some pc, p.hdr, p.sigs, lastOpOf acc.st.stages pc⟩, rfl, by simp [hb]⟩
                · split at h
                  · cases h
                    refine ⟨⟨some v.1, some pc, p.hdr, sigsUpdate p.sigs v.1.cls (addNode acc.st.stages stage ⟨some v.1, some pc, p.hdr, p.sigs, lastOpOf acc.st.stages pc⟩).2, lastOpOf acc.st.stages pc⟩, ?_, by simp [hb]⟩
                    exact addNode_set _ _ _ _
                  · cases h
                    exact ⟨⟨some v.1, some pc, p.hdr, p.sigs, lastOpOf acc.st.stages pc⟩, rfl, by simp [hb]⟩
theorem cellsLoop_bar (P : CellParser) (row : List Str) (S0 : List (List Node)) (starts : List Nat) :
    ∀ (cells : List Str) (ns : List Node) (i : Nat) (acc acc' : RowAcc),
      acc.st.stages = S0 ++ cur ns → acc.st.starts = starts → acc.isBar = ns.any (barCond starts) →
      cellsLoop P row S0.length acc i cells = .ok acc' →
      ∃ ns', acc'.st.stages = S0 ++ cur ns' ∧ acc'.isBar = ns'.any (barCond starts) := by
  intro cells
  induction cells with
  | nil =>
    intro ns i acc acc' hst _ hb h
    simp only [cellsLoop, Except.ok.injEq] at h
    subst h
    exact ⟨ns, hst, hb⟩
  | cons c cs ih =>
    intro ns i acc acc' hst hs hb h
    simp only [cellsLoop, bind, Except.bind] at h
    cases hc : cellStep P row S0.length acc i c with
    | error e => rw [hc] at h; cases h
    | ok a1 =>
      rw [hc] at h
      obtain ⟨n, k1, k2⟩ := cellStep_bar P row S0.length acc a1 i c hc
      rw [hst, addNode_cur] at k1
      have k1' : a1.st.stages = S0 ++ cur (ns ++ [n]) := by rw [cur_append_singleton]; exact k1
      have hf := cellStep_frame P row S0.length acc a1 i c hc
      refine ih (ns ++ [n]) (i + 1) a1 acc' k1' (by rw [hf.2.2.1]; exact hs) ?_ h
      rw [k2, hb, hs]
      simp

/-- the invariant between lines: the index is the one read off the tree -/
def MI (st : ImpState) : Prop := st.starts = startsOf 0 [] st.stages

theorem rowStep_bar (P : CellParser) (st st' : ImpState) (row : List Str) (h : MI st)
    (hr : rowStep P st row = .ok st') : MI st' := by
  cases row with
  | nil =>
    simp only [rowStep, Except.ok.injEq] at hr
    subst hr
    exact h
  | cons c0 cs =>
    unfold rowStep at hr
    simp only at hr
    by_cases hm : startsWith ['!', '!'] c0 = true
    · simp only [hm, if_true, Except.ok.injEq, addNode_new] at hr
      subst hr
      unfold MI
      simp only
      rw [startsOf_append, ← h]
      simp [barCond, Tok.cat, cat_comment.1, cat_comment.2]
    · simp only [hm, Bool.false_eq_true, if_false, bind, Except.bind] at hr
      split at hr
      · cases hr
      · rename_i acc hacc
        simp only [pure, Except.pure, Except.ok.injEq] at hr
        obtain ⟨ns', g1, g2⟩ := cellsLoop_bar P (c0 :: cs) st.stages st.starts (c0 :: cs) [] 0 _ acc (by simp [cur]) rfl (by simp) hacc
        have hf := cellsLoop_frame P (c0 :: cs) st.stages.length _ acc 0 (c0 :: cs) hacc
        simp only at hf
        have hne : ns' ≠ [] := by
          intro e
          rw [e] at g1
          have hl := cellsLoop_length P (c0 :: cs) st.stages.length _ acc 0 (c0 :: cs) (Nat.le_refl _) (by simp) hacc
          have := congrArg List.length g1
          simp [cur] at this hl
          omega
        have hcur : cur ns' = [ns'] := by
          cases ns' with
          | nil => exact absurd rfl hne
          | cons a l => rfl
        rw [hcur] at g1
        have h' : startsOf 0 [] st.stages = st.starts := h.symm
        unfold MI
        subst hr
        by_cases hb : acc.isBar = true
        · simp only [hb, if_true, g1, startsOf_append, h', hf.2.2.1]
          rw [hb] at g2
          simp [← g2]
        · have hb' : acc.isBar = false := by simpa using hb
          simp only [hb', Bool.false_eq_true, if_false, g1, startsOf_append, h', hf.2.2.1]
          rw [hb'] at g2
          simp [← g2]

theorem runRows_bar (P : CellParser) (rows : List (List Str)) :
    ∀ (st st' : ImpState), MI st → runRows P st rows = .ok st' → MI st' := by
  induction rows with
  | nil =>
    intro st st' h hr
    simp only [runRows, Except.ok.injEq] at hr
    subst hr
    exact h
  | cons r rs ih =>
    intro st st' h hr
    simp only [runRows, bind, Except.bind] at hr
    cases h1 : rowStep P st r with
    | error e => rw [h1] at hr; cases hr
    | ok s1 => rw [h1] at hr; exact ih s1 st' (rowStep_bar P st s1 r h h1) hr

/-- **C07, the measure index is the barline structure of the tree.**  For every parser and every text: measure `k` starts at
    the `k`-th line (stage) that holds a barline token — the first measure at the first line holding a CORE token (note, rest,
    chord, null token …) when that comes before the first barline. -/
theorem C07_measure_index (P : CellParser) (rows : List (List Str)) (d : Doc) (h : importRows P rows = .ok d) :
    d.starts = startsOf 0 [] d.stages := by
  unfold importRows at h
  cases hr : runRows P Importer.init rows with
  | error e => rw [hr] at h; cases h
  | ok st =>
    rw [hr] at h
    simp only [Except.map, Except.ok.injEq] at h
    subst h
    have : MI Importer.init := by unfold MI; decide +kernel
    exact runRows_bar P rows _ _ this hr

/-! non-vacuity: pickup line (CORE token), then two barline lines -/
def toyP : CellParser := fun _ c =>
  if c == ['='] then some (.simple .BarToken c .BARLINES false)
  else if c == ['.'] then some (.simple .SimpleToken c .EMPTY false)
  else some (.simple .SimpleToken c .OTHER false)
def toyRows : List (List Str) := [[['*', '*', 'k']], [['*', 'x', 'y']], [['.']], [['a']], [['=']], [['b']], [['=']], [['*', '-']]]
example : (importRows toyP toyRows).toOption.map (·.starts) = some [3, 5, 7] := by decide +kernel

end KM.C07D
