/-
  C07 (text level) — the data lines of a measure range as a function of the text: the range export's body is the text specification of
  the rows (`C10T.specBodyRange`) over the stage interval that the measure index read off the tree (`C07_measure_index`) assigns to a..b.
-/
import KernProofs.C07
import KernProofs.C07Doc
import KernProofs.C10Text
namespace KM.C07T
open KM Importer Export
open KM.Spec.Track
open KM.C02K KM.C10T

/-- **C07, a measure range of a text.**  For every parser with well-classed tokens, every text without surplus cells that imports, every
    option set and every valid pair 1 ≤ a ≤ b ≤ M: the rows of the range export between the recovered preamble and the terminator are the rows
    the text specification gives for the stages from the `a`-th entry of the measure index — itself read off the tree line by line, a barline
    line opening each measure — to the closing stage of measure `b`; all-null lines dropped, nothing else added or removed. -/
theorem C07_range_of_text (P : CellParser) (rows : List (List Str)) (d : Doc) (h : importRows P rows = .ok d) (hwf : wf rows = true)
    (hwc : AllWC d) (o : Opts) (a b : Int) (ha : o.fromM = some a) (hb : o.toM = some b)
    (hv : 1 ≤ a ∧ a ≤ b ∧ b ≤ d.starts.length) (p : Parts) (hp : exportParts d o = .ok p) :
    ∃ fs, (C07D.startsOf 0 [] d.stages)[(a - 1).toNat]? = some fs ∧
      specBodyRange o (run rows).skel (TT.run P rows).toks fs (toStageOf d o) = .ok p.body := by
  obtain ⟨fs, h1, h2⟩ := C07.C07_body d o a b ha hb hv p hp
  refine ⟨fs, ?_, ?_⟩
  · rw [← C07D.C07_measure_index P rows d h]; exact h1
  · rw [← bodyRows_range_of_text P rows d h hwf hwc o fs (toStageOf d o)]; exact h2
end KM.C07T
