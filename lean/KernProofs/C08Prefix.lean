/-
  C08 — excerpts that start at the beginning of the score (`from_measure` omitted or 0): the excerpt is the full export cut after the
  stage at which the excerpt ends, followed by the synthetic terminator; in particular its first lines (header, signatures) and every
  cell count are those of the full score.
-/
import KernModel.Export
import KernProofs.C07
import KernProofs.C08
namespace KM.C08P
open KM Export

theorem mapM_append_ok {α β} (f : α → Except Err β) (l1 l2 : List α) (r : List β) (h : (l1 ++ l2).mapM f = .ok r) :
    ∃ r1 r2, l1.mapM f = .ok r1 ∧ l2.mapM f = .ok r2 ∧ r = r1 ++ r2 := by
  induction l1 generalizing r with
  | nil => exact ⟨[], r, rfl, by simpa using h, rfl⟩
  | cons a t ih =>
    simp only [List.cons_append, List.mapM_cons, bind, Except.bind] at h
    cases ha : f a with
    | error e => rw [ha] at h; cases h
    | ok b =>
      rw [ha] at h
      simp only at h
      cases ht : (t ++ l2).mapM f with
      | error e => rw [ht] at h; cases h
      | ok r' =>
        rw [ht] at h
        simp only [pure, Except.pure, Except.ok.injEq] at h
        obtain ⟨r1, r2, h1, h2, h3⟩ := ih r' ht
        refine ⟨b :: r1, r2, ?_, h2, ?_⟩
        · simp [List.mapM_cons, ha, h1, bind, Except.bind, pure, Except.pure]
        · rw [← h, h3]; rfl

theorem mapM_stage_fst (d : Doc) (o : Opts) : ∀ (l : List Nat) (r : List (Nat × List Str)),
    l.mapM (fun s => (do let x ← rowOfStage d o (d.stages[s]?.getD []); pure (s, x) : Except Err (Nat × List Str))) = .ok r → r.map (·.1) = l := by
  intro l
  induction l with
  | nil => intro r h; simp only [List.mapM_nil, pure, Except.pure, Except.ok.injEq] at h; subst h; rfl
  | cons a t ih =>
    intro r h
    simp only [List.mapM_cons, bind, Except.bind] at h
    cases ha : rowOfStage d o (d.stages[a]?.getD []) with
    | error e => rw [ha] at h; cases h
    | ok x =>
      rw [ha] at h
      simp only [pure, Except.pure] at h
      cases ht : t.mapM (fun s => (do let x ← rowOfStage d o (d.stages[s]?.getD []); pure (s, x) : Except Err (Nat × List Str))) with
      | error e => simp only [bind, Except.bind, pure, Except.pure] at ht; rw [ht] at h; cases h
      | ok r' =>
        simp only [bind, Except.bind, pure, Except.pure] at ht
        rw [ht] at h
        simp only [Except.ok.injEq] at h
        subst h
        simp [ih r' (by simpa [bind, Except.bind, pure, Except.pure] using ht)]

/-- **the rows up to stage `t` are the rows of the whole score up to stage `t`** -/
theorem bodyRows_prefix (d : Doc) (o : Opts) (t T : Nat) (htT : t ≤ T) (R : List (Nat × List Str)) (h : bodyRows d o 0 T = .ok R) :
    bodyRows d o 0 t = .ok (R.filter (fun sr => decide (sr.1 ≤ t))) := by
  unfold bodyRows at h ⊢
  simp only [Nat.sub_zero, Nat.add_zero, List.map_id'] at h ⊢
  have hsplit : List.range (T + 1) = List.range (t + 1) ++ (List.range' (t + 1) (T - t)) := by
    rw [List.range_eq_range', List.range_eq_range']
    have : T + 1 = (t + 1) + (T - t) := by omega
    rw [this, ← List.range'_append_1]
    simp
  simp only [bind, Except.bind, pure, Except.pure] at h ⊢
  cases hm : (List.range (T + 1)).mapM (fun s => (do let x ← rowOfStage d o (d.stages[s]?.getD []); pure (s, x) : Except Err (Nat × List Str))) with
  | error e => simp only [bind, Except.bind, pure, Except.pure] at hm; rw [hm] at h; cases h
  | ok rows =>
    have hm' := hm
    simp only [bind, Except.bind, pure, Except.pure] at hm'
    rw [hm'] at h
    simp only [Except.ok.injEq] at h
    rw [hsplit] at hm
    obtain ⟨r1, r2, h1, h2, h3⟩ := mapM_append_ok _ _ _ _ hm
    have h1' := h1
    simp only [bind, Except.bind, pure, Except.pure] at h1'
    rw [h1']
    simp only [Except.ok.injEq]
    have f1 := mapM_stage_fst d o _ r1 h1
    have f2 := mapM_stage_fst d o _ r2 h2
    rw [← h, h3, List.filter_append, List.filter_append]
    have e1 : (r1.filter (fun sr => !sr.2.isEmpty && !(sr.2.all isNullish))).filter (fun sr => decide (sr.1 ≤ t)) = r1.filter (fun sr => !sr.2.isEmpty && !(sr.2.all isNullish)) := by
      apply List.filter_eq_self.mpr
      intro sr hsr
      have hm1 : sr ∈ r1 := (List.mem_filter.mp hsr).1
      have : sr.1 ∈ r1.map (·.1) := List.mem_map.mpr ⟨sr, hm1, rfl⟩
      rw [f1] at this
      have := List.mem_range.mp this
      simp; omega
    have e2 : (r2.filter (fun sr => !sr.2.isEmpty && !(sr.2.all isNullish))).filter (fun sr => decide (sr.1 ≤ t)) = [] := by
      apply List.filter_eq_nil_iff.mpr
      intro sr hsr
      have hm2 : sr ∈ r2 := (List.mem_filter.mp hsr).1
      have : sr.1 ∈ r2.map (·.1) := List.mem_map.mpr ⟨sr, hm2, rfl⟩
      rw [f2] at this
      have := (List.mem_range'_1.mp this).1
      simp; omega
    rw [e1, e2, List.append_nil]
theorem toStage_le (d : Doc) (o : Opts) (hs : ∀ s ∈ d.starts, s < d.stages.length) : toStageOf d o ≤ d.stages.length - 1 := by
  unfold toStageOf
  cases o.toM with
  | none => exact Nat.le_refl _
  | some t =>
    simp only
    split
    · cases hg : d.starts[t.toNat]? with
      | none => simp
      | some s =>
        have := hs s (List.mem_of_getElem? hg)
        simp only [Option.getD_some]
        omega
    · exact Nat.le_refl _

/-- **C08, an excerpt from the beginning of the score** (`from_measure` omitted or 0, any valid `to_measure`): it is the full export cut
    after the stage at which the excerpt ends — the same header line, the same signature lines, the same cells in every line — followed by the
    synthetic terminator (`C08_terminator_*`). -/
theorem C08_excerpt_from_start (d : Doc) (o : Opts) (hfrom : hasFrom o = false) (hv : validate d o = .ok ())
    (hs : ∀ s ∈ d.starts, s < d.stages.length) (R : List (Nat × List Str))
    (hfull : bodyRows d o 0 (d.stages.length - 1) = .ok R) :
    exportParts d o = .ok ⟨[], R.filter (fun sr => decide (sr.1 ≤ toStageOf d o)),
      terminatorFor o ((R.filter (fun sr => decide (sr.1 ≤ toStageOf d o))).map (·.2))⟩ := by
  unfold exportParts fromPart
  simp only [hv, hfrom, Bool.false_eq_true, if_false, bind, Except.bind, pure, Except.pure]
  rw [bodyRows_prefix d o (toStageOf d o) (d.stages.length - 1) (toStage_le d o hs) R hfull]
  simp

/-- the rows of the full export do not depend on the range options -/
theorem bodyRows_range_free (d : Doc) (o o' : Opts)
    (h : o.spineTypes = o'.spineTypes ∧ o.spineIds = o'.spineIds ∧ o.cats = o'.cats ∧ o.enc = o'.enc) (f t : Nat) :
    bodyRows d o f t = bodyRows d o' f t := by
  unfold bodyRows
  have : (fun s => (do let r ← rowOfStage d o (d.stages[s]?.getD []); pure (s, r) : Except Err (Nat × List Str))) =
      (fun s => do let r ← rowOfStage d o' (d.stages[s]?.getD []); pure (s, r)) := by
    funext s
    rw [C07.C07_rows_unmodified d o o' _ h]
  rw [this]

end KM.C08P
