/-
  C15 — "transposing the result back by the same interval restores the source export", on the core of single notes whose `PITCH`
  sub-token is a Humdrum spelling with at most two accidentals (in particular every note written without an explicit accidental):
  whenever the first transposition succeeds, the transposition back succeeds too and the default export of its result is the default
  export of the source.
-/
import KernProofs.C15Doc
import KernProofs.C01Text
import KernProofs.C09
import KernProofs.C16
namespace KM.C15R
open KM Transpose Export Pitch
open KM.C02T KM.C03D KM.C15D KM.C01T

/-- the two directions, each the opposite of the other -/
def Opposite (dir dir' : Str) : Prop := (dir = Gen.dirUp ∧ dir' = Gen.dirDown) ∨ (dir = Gen.dirDown ∧ dir' = Gen.dirUp)

theorem signedDelta_opp (iv : Int) (dir dir' : Str) (h : Opposite dir dir') : signedDelta iv dir' = -(signedDelta iv dir) := by
  have hne : (Gen.dirDown == Gen.dirUp) = false := by decide
  rcases h with ⟨rfl, rfl⟩ | ⟨rfl, rfl⟩
  · simp [signedDelta, hne]
  · simp [signedDelta, hne]

/-- **one pitch**: a spelling that was transposed comes back -/
theorem transpose_back (l : Letter) (a o : Int) (ha : -2 ≤ a ∧ a ≤ 2) (iv : Int) (dir dir' : Str) (hop : Opposite dir dir') (t : Str)
    (h : Pitch.transpose (spell l a o) iv dir = .ok t) : Pitch.transpose t iv dir' = .ok (spell l a o) := by
  unfold Pitch.transpose at h
  have himp : importHumdrum (spell l a o) = .ok (pitchOf l a o) := C16.C16_import l a o (by omega)
  rw [himp] at h
  simp only [bind, Except.bind, pure, Except.pure, Pitch.toTransposed] at h
  cases hq : toTransposedDelta (pitchOf l a o) (signedDelta iv dir) with
  | error e => rw [hq] at h; cases h
  | ok q =>
    rw [hq] at h
    simp only [Except.ok.injEq] at h
    obtain ⟨l', a', _, _, hexp, hback⟩ := C09.C09_inverse_spelling l a o ha (signedDelta iv dir) q hq
    unfold Pitch.transpose
    rw [← h, hexp]
    simp only [bind, Except.bind, pure, Except.pure, Pitch.toTransposed, signedDelta_opp iv dir dir' hop]
    simp only [Except.bind, Except.map] at hback
    cases hi : importHumdrum (spell l' a' q.octave) with
    | error e => rw [hi] at hback; cases hback
    | ok q' =>
      rw [hi] at hback
      simp only at hback ⊢
      cases ht : toTransposedDelta q' (-(signedDelta iv dir)) with
      | error e => rw [ht] at hback; cases hback
      | ok r => rw [ht] at hback; simpa using hback

/-- a `PITCH` sub-token that is a Humdrum spelling with at most two accidentals -/
def SpelledSub (s : Sub) : Prop := s.cat = .PITCH → ∃ l a o, (-2 ≤ a ∧ a ≤ 2) ∧ s.enc = spell l a o

def subStep (iv : Int) (dir : Str) (s : Sub) : Except Err Sub :=
  if s.cat == .PITCH then do
    let tp ← Pitch.transpose s.enc iv dir
    pure (⟨tp, s.cat⟩ : Sub)
  else pure s

theorem subStep_back (iv : Int) (dir dir' : Str) (hop : Opposite dir dir') (s s' : Sub) (hs : SpelledSub s)
    (h : subStep iv dir s = .ok s') : subStep iv dir' s' = .ok s := by
  unfold subStep at h ⊢
  by_cases hc : (s.cat == .PITCH) = true
  · simp only [hc, if_true, bind, Except.bind, pure, Except.pure] at h
    obtain ⟨l, a, o, ha, henc⟩ := hs (by simpa using hc)
    cases ht : Pitch.transpose s.enc iv dir with
    | error e => rw [ht] at h; cases h
    | ok t =>
      rw [ht] at h
      simp only [Except.ok.injEq] at h
      subst h
      simp only [hc, if_true, bind, Except.bind, pure, Except.pure]
      rw [henc] at ht
      rw [transpose_back l a o ha iv dir dir' hop t ht]
      simp only [← henc]
  · have hc' : (s.cat == .PITCH) = false := by simpa using hc
    simp only [hc', Bool.false_eq_true, if_false, pure, Except.pure, Except.ok.injEq] at h
    subst h
    simp [hc', pure, Except.pure]

theorem mapM_back {α} (f g : α → Except Err α) (P : α → Prop) (hfg : ∀ a b, P a → f a = .ok b → g b = .ok a) :
    ∀ (l l' : List α), (∀ a ∈ l, P a) → l.mapM f = .ok l' → l'.mapM g = .ok l := by
  intro l
  induction l with
  | nil => intro l' _ h; simp only [List.mapM_nil, pure, Except.pure, Except.ok.injEq] at h; subst h; rfl
  | cons a t ih =>
    intro l' hP h
    simp only [List.mapM_cons, bind, Except.bind] at h
    cases ha : f a with
    | error e => rw [ha] at h; cases h
    | ok b =>
      rw [ha] at h
      simp only at h
      cases ht : t.mapM f with
      | error e => rw [ht] at h; cases h
      | ok t' =>
        rw [ht] at h
        simp only [pure, Except.pure, Except.ok.injEq] at h
        subst h
        simp only [List.mapM_cons, bind, Except.bind, pure, Except.pure]
        rw [hfg a b (hP a (by simp)) ha, ih t' (fun x hx => hP x (by simp [hx])) ht]

/-- two tokens the export cannot tell apart after a round trip: the same, or two single notes with the same parts -/
def SameParts (t t' : Tok) : Prop :=
  t = t' ∨ ∃ n n', t = .noteRest n ∧ t' = .noteRest n' ∧ n.pd = n'.pd ∧ n.dec = n'.dec

def SpelledTok : Tok → Prop
  | .noteRest n => ∀ s ∈ n.pd, SpelledSub s
  | _ => True

theorem transposeNote_eq (iv : Int) (dir : Str) (n : Note) :
    transposeNote iv dir n = (n.pd.mapM (subStep iv dir)).map (fun pd =>
      ⟨((pd.filter (fun s => s.cat == .PITCH)).getLast?).map (·.enc) |>.getD [], pd, n.dec⟩) := by
  unfold transposeNote subStep
  simp only [bind, Except.bind, pure, Except.pure, Except.map]

theorem transposeTok_back (iv : Int) (dir dir' : Str) (hop : Opposite dir dir') (t t' : Tok) (hs : SpelledTok t)
    (h : transposeTok iv dir t = .ok t') : ∃ t'', transposeTok iv dir' t' = .ok t'' ∧ SameParts t t'' := by
  cases t with
  | noteRest n =>
    simp only [transposeTok, bind, Except.bind, pure, Except.pure] at h
    rw [transposeNote_eq] at h
    cases hpd : n.pd.mapM (subStep iv dir) with
    | error e => rw [hpd] at h; simp [Except.map] at h
    | ok pd' =>
      rw [hpd] at h
      simp only [Except.map, Except.ok.injEq] at h
      subst h
      have hb := mapM_back (subStep iv dir) (subStep iv dir') SpelledSub
        (fun a b hP hab => subStep_back iv dir dir' hop a b hP hab) n.pd pd' hs hpd
      refine ⟨.noteRest ⟨((n.pd.filter (fun s => s.cat == .PITCH)).getLast?).map (·.enc) |>.getD [], n.pd, n.dec⟩, ?_, ?_⟩
      · simp only [transposeTok, bind, Except.bind, pure, Except.pure]
        rw [transposeNote_eq]
        simp only [hb, Except.map]
      · exact Or.inr ⟨n, _, rfl, rfl, rfl, rfl⟩
  | simple c e k hd => simp only [transposeTok, pure, Except.pure, Except.ok.injEq] at h; subst h; exact ⟨_, rfl, Or.inl rfl⟩
  | header e i => simp only [transposeTok, pure, Except.pure, Except.ok.injEq] at h; subst h; exact ⟨_, rfl, Or.inl rfl⟩
  | chord e ns => simp only [transposeTok, pure, Except.pure, Except.ok.injEq] at h; subst h; exact ⟨_, rfl, Or.inl rfl⟩

theorem exportNote_parts (f : Cat → Bool) (cv : Tokz.Convert) (n n' : Note) (h1 : n.pd = n'.pd) (h2 : n.dec = n'.dec) :
    Tokz.exportNote f cv n = Tokz.exportNote f cv n' := by
  unfold Tokz.exportNote
  rw [h1, h2]

theorem cellOfTok_sameParts (t t' : Tok) (h : SameParts t t') : cellOfTok t = cellOfTok t' := by
  rcases h with rfl | ⟨n, n', rfl, rfl, h1, h2⟩
  · rfl
  · unfold cellOfTok
    have e := exportNote_parts (fun c => Cat.all.contains c) none n n' h1 h2
    simp only [Tok.hidden, Bool.false_eq_true, if_false, hdrAdj, Tokz.tokenize, Tokz.exportTok, phOf, Tok.cat, e]
    rfl

theorem sameParts_rel (t t' : Tok) (h : SameParts t t') : RelTok (some t) (some t') := by
  rcases h with rfl | ⟨n, n', rfl, rfl, h1, h2⟩
  · exact Or.inl rfl
  · exact Or.inr ⟨_, _, rfl, rfl, rfl, rfl, cellOfTok_sameParts _ _ (Or.inr ⟨n, n', rfl, rfl, h1, h2⟩)⟩

def SpelledNode (n : Node) : Prop := ∀ t, n.tok = some t → SpelledTok t

/-- one node there and back: same links, a token the export cannot tell from the source's -/
theorem nodeStep_back (iv : Int) (dir dir' : Str) (hop : Opposite dir dir') (n n' : Node) (hs : SpelledNode n)
    (h : nodeStep iv dir n = .ok n') :
    ∃ n'', nodeStep iv dir' n' = .ok n'' ∧ skelOf n'' = skelOf n ∧ RelTok n.tok n''.tok := by
  unfold nodeStep at h
  cases ht : n.tok with
  | none =>
    rw [ht] at h
    simp only [pure, Except.pure, Except.ok.injEq] at h
    subst h
    exact ⟨n, by simp [nodeStep, ht, pure, Except.pure], rfl, by rw [ht]; exact Or.inl rfl⟩
  | some t =>
    rw [ht] at h
    simp only [bind, Except.bind, pure, Except.pure] at h
    cases hx : transposeTok iv dir t with
    | error e => rw [hx] at h; cases h
    | ok t' =>
      rw [hx] at h
      simp only [Except.ok.injEq] at h
      subst h
      obtain ⟨t'', hb, hsp⟩ := transposeTok_back iv dir dir' hop t t' (hs t ht) hx
      refine ⟨{ n with tok := some t'' }, ?_, rfl, ?_⟩
      · simp only [nodeStep, bind, Except.bind, pure, Except.pure, hb]
      · exact sameParts_rel t t'' hsp

/-- a row of nodes there and back -/
theorem row_back (iv : Int) (dir dir' : Str) (hop : Opposite dir dir') :
    ∀ (st st' : List Node), (∀ n ∈ st, SpelledNode n) → st.mapM (nodeStep iv dir) = .ok st' →
      ∃ st'', st'.mapM (nodeStep iv dir') = .ok st'' ∧ st''.map skelOf = st.map skelOf ∧
        st.length = st''.length ∧ ∀ (i : Nat) (a b : Option Tok), (st.map (·.tok))[i]? = some a → (st''.map (·.tok))[i]? = some b → RelTok a b := by
  intro st
  induction st with
  | nil =>
    intro st' _ h
    simp only [List.mapM_nil, pure, Except.pure, Except.ok.injEq] at h
    subst h
    exact ⟨[], rfl, rfl, rfl, by intro i a b ha; simp at ha⟩
  | cons n t ih =>
    intro st' hs h
    simp only [List.mapM_cons, bind, Except.bind] at h
    cases hn : nodeStep iv dir n with
    | error e => rw [hn] at h; cases h
    | ok n' =>
      rw [hn] at h
      simp only at h
      cases ht : t.mapM (nodeStep iv dir) with
      | error e => rw [ht] at h; cases h
      | ok t' =>
        rw [ht] at h
        simp only [pure, Except.pure, Except.ok.injEq] at h
        subst h
        obtain ⟨n'', hb, hsk, hrel⟩ := nodeStep_back iv dir dir' hop n n' (hs n (by simp)) hn
        obtain ⟨t'', htb, htsk, htlen, htrel⟩ := ih t' (fun x hx => hs x (by simp [hx])) ht
        refine ⟨n'' :: t'', ?_, ?_, ?_, ?_⟩
        · simp only [List.mapM_cons, bind, Except.bind, pure, Except.pure, hb, htb]
        · simp only [List.map_cons, hsk, htsk]
        · simp [htlen]
        · intro i a b ha hb'
          cases i with
          | zero =>
            simp only [List.map_cons, List.getElem?_cons_zero, Option.some.injEq] at ha hb'
            subst ha; subst hb'
            exact hrel
          | succ j =>
            simp only [List.map_cons, List.getElem?_cons_succ] at ha hb'
            exact htrel j a b ha hb'

/-- all rows there and back -/
theorem rows_back (iv : Int) (dir dir' : Str) (hop : Opposite dir dir') :
    ∀ (S S' : List (List Node)), (∀ st ∈ S, ∀ n ∈ st, SpelledNode n) → S.mapM (fun st => st.mapM (nodeStep iv dir)) = .ok S' →
      ∃ S'', S'.mapM (fun st => st.mapM (nodeStep iv dir')) = .ok S'' ∧ S''.map (·.map skelOf) = S.map (·.map skelOf) ∧
        RelRows (S.map (·.map (·.tok))) (S''.map (·.map (·.tok))) := by
  intro S
  induction S with
  | nil =>
    intro S' _ h
    simp only [List.mapM_nil, pure, Except.pure, Except.ok.injEq] at h
    subst h
    exact ⟨[], rfl, rfl, trivial⟩
  | cons st T ih =>
    intro S' hs h
    simp only [List.mapM_cons, bind, Except.bind] at h
    cases hst : st.mapM (nodeStep iv dir) with
    | error e => rw [hst] at h; cases h
    | ok st' =>
      rw [hst] at h
      simp only at h
      cases hT : T.mapM (fun st => st.mapM (nodeStep iv dir)) with
      | error e => rw [hT] at h; cases h
      | ok T' =>
        rw [hT] at h
        simp only [pure, Except.pure, Except.ok.injEq] at h
        subst h
        obtain ⟨st'', h1, h2, h3, h4⟩ := row_back iv dir dir' hop st st' (hs st (by simp)) hst
        obtain ⟨T'', g1, g2, g3⟩ := ih T' (fun x hx => hs x (by simp [hx])) hT
        refine ⟨st'' :: T'', ?_, ?_, ?_⟩
        · simp only [List.mapM_cons, bind, Except.bind, pure, Except.pure, h1, g1]
        · simp only [List.map_cons, h2, g2]
        · exact ⟨⟨by simp [h3], h4⟩, g3⟩

/-- every single note of the document carries `PITCH` sub-tokens that are Humdrum spellings with at most two accidentals -/
def SpelledDoc (d : Doc) : Prop := ∀ st ∈ d.stages, ∀ n ∈ st, SpelledNode n

/-- **C15, there and back.**  If a document whose single notes are spelled with at most two accidentals is transposed successfully, the
    result can be transposed back by the same interval in the opposite direction, and the default export of what comes back is the
    default export of the source: same lines, same cells, every note at its original pitch. -/
theorem C15_roundtrip (d r src : Doc) (ivn dir dir' : Str) (hop : Opposite dir dir') (hs : SpelledDoc d)
    (h : toTransposed d ivn dir = .ok (r, src)) :
    ∃ r2 src2, toTransposed r ivn dir' = .ok (r2, src2) ∧ exportString r2 defaultOpts = exportString d defaultOpts := by
  rw [toTransposed_eq] at h
  unfold toTransposed' at h
  simp only [bind, Except.bind, pure, Except.pure] at h
  split at h
  · cases h
  · rename_i hav
    split at h
    · cases h
    · split at h
      · cases h
      · rename_i iv hiv
        split at h
        · cases h
        · rename_i stages hst
          simp only [Except.ok.injEq, Prod.mk.injEq] at h
          obtain ⟨h1, _⟩ := h
          subst h1
          obtain ⟨S'', g1, g2, g3⟩ := rows_back iv dir dir' hop d.stages stages hs hst
          have hdir' : (dir' == Gen.dirUp || dir' == Gen.dirDown) = true := by
            rcases hop with ⟨_, rfl⟩ | ⟨_, rfl⟩ <;> decide
          refine ⟨{ d with stages := S'' }, { d with stages := S'' }, ?_, ?_⟩
          · rw [toTransposed_eq]
            unfold toTransposed'
            simp only [bind, Except.bind, pure, Except.pure, hav, hdir', hiv, Bool.not_true, Bool.false_eq_true, if_false, g1]
          · rw [export_of_skeleton_tokens, export_of_skeleton_tokens]
            simp only [g2]
            exact (specExport_rel _ _ _ g3).symm

/-! non-vacuity: the sub-tokens of `4c` and of `8GG#` satisfy the hypothesis; the two directions are opposite -/
example : SpelledSub ⟨['c'], .PITCH⟩ := fun _ => ⟨.C, 0, 4, by decide, by decide⟩
example : SpelledSub ⟨['G', 'G', '#'], .PITCH⟩ := fun _ => ⟨.G, 1, 2, by decide, by decide⟩
example : SpelledSub ⟨['4'], .DURATION⟩ := fun h => by cases h
example : SpelledTok (.noteRest ⟨['4', 'c'], [⟨['4'], .DURATION⟩, ⟨['c'], .PITCH⟩], []⟩) := by
  intro s hs
  simp only [List.mem_cons, List.not_mem_nil, or_false] at hs
  rcases hs with rfl | rfl
  · exact fun h => by cases h
  · exact fun _ => ⟨.C, 0, 4, by decide, by decide⟩
example : Opposite Gen.dirUp Gen.dirDown := Or.inl ⟨rfl, rfl⟩

end KM.C15R
