/-
  C06 — Spine selection is column projection.   (property theorems, about the exporter model)

  `spineSelected d o n` looks only at the header token of the node's spine (`header_node`, which the importer
  propagates unchanged along every spine path through splits and joins — C02).  The text of a cell of a selected
  spine (`cellBody`) does not take the selection as an argument at all.
-/
import KernModel.Export
import KernProofs.Lemmas.ExportGrid
namespace KM.C06
open KM Export

/-- **C06, rows.** Without a measure range the export is one row per stage (root to last stage), rows that are
    empty or all-null dropped … -/
theorem C06_export_rows (d : Doc) (o : Opts) (hf : o.fromM = none) (ht : o.toM = none) :
    exportString d o = (bodyRows d o 0 (d.stages.length - 1)).map (fun b => renderRows (b.map (·.2))) :=
  exportString_noRange d o hf ht

/-- … and the row of a stage is: the cells of the nodes of the selected spines, in order, each cell's text depending
    on the options only through the encoding and the categories. -/
theorem C06_row_is_selected_cells (d : Doc) (o : Opts) (st : List Node) :
    rowOfStage d o st = ((st.filter (spineSelected d o)).mapM (cellBody d o.cats o.enc)).map (·.filterMap id) :=
  rowOfStage_eq d o st

/-- **C06, cells unchanged and in order.** If the stage exports completely (every spine selected) to the cells `cells`,
    then with any spine selection the row is exactly the sub-list of those cells at the selected nodes. -/
theorem C06_row_projection (d : Doc) (o : Opts) (st : List Node) (cells : List (Option Str))
    (hfull : st.mapM (cellBody d o.cats o.enc) = .ok cells) :
    rowOfStage d o st = .ok (((st.zip cells).filter (fun p => spineSelected d o p.1)).filterMap (·.2)) := by
  rw [rowOfStage_eq]
  induction st generalizing cells with
  | nil =>
    simp only [List.mapM_nil, pure, Except.pure] at hfull
    cases hfull; rfl
  | cons n st ih =>
    simp only [List.mapM_cons, bind, Except.bind] at hfull
    cases hb : cellBody d o.cats o.enc n with
    | error e => rw [hb] at hfull; cases hfull
    | ok c =>
      rw [hb] at hfull
      cases hr : st.mapM (cellBody d o.cats o.enc) with
      | error e => rw [hr] at hfull; cases hfull
      | ok cs =>
        rw [hr] at hfull
        simp only [pure, Except.pure, Except.ok.injEq] at hfull
        subst hfull
        have := ih cs hr
        by_cases hs : spineSelected d o n = true
        · simp only [List.filter_cons, hs, if_true, List.mapM_cons, hb, bind, Except.bind, List.zip_cons_cons]
          cases hm : (st.filter (spineSelected d o)).mapM (cellBody d o.cats o.enc) with
          | error e => rw [hm] at this; simp [Except.map] at this
          | ok w =>
            rw [hm] at this
            simp only [Except.map, Except.ok.injEq, pure, Except.pure] at this ⊢
            cases c <;> simp [this]
        · have hs' : spineSelected d o n = false := by simpa using hs
          simp only [List.filter_cons, hs', Bool.false_eq_true, if_false, List.zip_cons_cons]
          exact this

/-- dropping all-null rows of the full export first is absorbed: a sub-row of an all-null row is all-null -/
theorem C06_null_rows_absorbed (r : List Str) (keep : Str → Bool) (h : r.all isNullish = true) :
    (r.filter keep).all isNullish = true := by
  simp only [List.all_eq_true, List.mem_filter] at h ⊢
  intro x hx; exact h x hx.1

/-- the selection looks only at the spine's header token -/
theorem C06_selection_by_header (d : Doc) (o : Opts) (n m : Node) (h : headerTok d n = headerTok d m) :
    spineSelected d o n = spineSelected d o m := by
  unfold spineSelected spineSelectedBy; rw [h]

/-- selecting nothing exports nothing: the spine-type query of an empty selection is the empty list -/
theorem C06_spine_types_empty (d : Doc) : getSpineTypes d (some []) = .ok [] := rfl

/-! non-vacuity: a selection that keeps the first of two spines -/
example : spineSelectedBy [['*','*','k','e','r','n']] (some [0])
    ⟨[[Doc.rootNode], [⟨some (.header ['*','*','k','e','r','n'] 0), some (0,0), some (1,0), [], none⟩]], [], none, [], []⟩
    ⟨some (.header ['*','*','k','e','r','n'] 0), some (0,0), some (1,0), [], none⟩ = true := by decide

end KM.C06
