/-
  C01 (text level, partial) — the cell-wise normal form of a text is a fixed point: replacing every data cell of a text by the exported
  text of the token its own spine's importer makes of it (what the specification of `dumps(loads(text))`, `C03_export_of_text`, prints in
  that cell) gives a text with the same spine paths, and doing it again changes nothing — for every cell parser and every class `G` of
  cells (per spine type) whose exported texts are again data cells of the class that export to themselves (the round-trip hypothesis `RT`;
  for the kern grammar this is `C01_cell_fixed_point` + the `tokOf` tie; cells with the separator characters `@` / `·` are outside every
  such class: finding F10).  Not proved here: that deleting the global-comment lines, the all-null lines and the columns of unsupported spine types
  (which the export also does) leaves the spine paths of the remaining cells unchanged.
-/
import KernProofs.C12Iso
import KernModel.Spec.NormalForm
import KernProofs.C03Doc
namespace KM.C01N
open KM Importer
open KM.Spec.Track
open KM.C02K KM.C03D KM.C12I

/-- **round trip of single cells** of the class `G` (which may depend on the text of the spine's `**` cell): the exported text of a data cell
    of the class is again a data cell of the class, does not turn its line into a global comment, and exports to itself -/
def RT (P : CellParser) (G : Option Str → Str → Prop) : Prop :=
  ∀ (h : Option Str) (i : Nat) (c : Str), dataCell c = true → G h c →
    dataCell (normCell P h i c) = true ∧ G h (normCell P h i c) ∧
    (i = 0 → startsWith ['!', '!'] c = false → startsWith ['!', '!'] (normCell P h i c) = false) ∧
    normCell P h i (normCell P h i c) = normCell P h i c

/-- every data cell of the line belongs to the class of its spine -/
def goodRow (G : Option Str → Str → Prop) (tt : TT) (r : List Str) : Prop :=
  ∀ (i : Nat) (c : Str), r[i]? = some c → dataCell c = true → G (specHdr tt i) c

def goodRows (P : CellParser) (G : Option Str → Str → Prop) : TT → List (List Str) → Prop
  | _, [] => True
  | tt, r :: rs => goodRow G tt r ∧ goodRows P G (tt.step P r) rs

theorem normCell_same (P : CellParser) (G) (hrt : RT P G) (h : Option Str) (i : Nat) (c : Str) (hg : dataCell c = true → G h c) :
    sameCell c (normCell P h i c) := by
  intro hs
  by_cases hd : dataCell c = true
  · -- a data cell stays a data cell: neither side is structural
    have hd' := (hrt h i c hd (hg hd)).1
    simp only [dataCell, Bool.and_eq_true, Bool.not_eq_true'] at hd hd'
    rcases hs with h1 | h1 | h1 | h1
    · rw [hd.1] at h1; cases h1
    · rw [hd.2] at h1; cases h1
    · rw [hd'.1] at h1; cases h1
    · rw [hd'.2] at h1; cases h1
  · have : dataCell c = false := by simpa using hd
    simp [normCell, this]

theorem normCell_idem (P : CellParser) (G) (hrt : RT P G) (h : Option Str) (i : Nat) (c : Str) (hg : dataCell c = true → G h c) :
    normCell P h i (normCell P h i c) = normCell P h i c := by
  by_cases hd : dataCell c = true
  · exact (hrt h i c hd (hg hd)).2.2.2
  · have : dataCell c = false := by simpa using hd
    simp [normCell, this]

theorem normCell_good (P : CellParser) (G) (hrt : RT P G) (h : Option Str) (i : Nat) (c : Str) (hg : dataCell c = true → G h c) :
    dataCell (normCell P h i c) = true → G h (normCell P h i c) := by
  by_cases hd : dataCell c = true
  · intro _; exact (hrt h i c hd (hg hd)).2.1
  · have : dataCell c = false := by simpa using hd
    simp [normCell, this]

theorem specHdr_congr (tt tt' : TT) (ht : tt.t = tt'.t) (hh : tt.hdrs = tt'.hdrs) (i : Nat) : specHdr tt i = specHdr tt' i := by
  unfold specHdr; rw [ht, hh]

theorem zipIdx_map_zipIdx {α β γ} (r : List α) (f : α × Nat → β) (g : β × Nat → γ) :
    (r.zipIdx.map f).zipIdx.map g = r.zipIdx.map (fun ci => g (f ci, ci.2)) := by
  apply List.ext_getElem?
  intro i
  simp only [List.getElem?_map, List.getElem?_zipIdx, Nat.zero_add]
  cases r[i]? <;> rfl

theorem normRow_cells (P : CellParser) (tt : TT) (r : List Str) (h : cellRow r = true) :
    normRow P tt r = r.zipIdx.map (fun ci => normCell P (specHdr tt ci.2) ci.2 ci.1) := by simp [normRow, h]

theorem normRow_other (P : CellParser) (tt : TT) (r : List Str) (h : cellRow r = false) : normRow P tt r = r := by simp [normRow, h]

theorem normRow_head (P : CellParser) (G) (hrt : RT P G) (tt : TT) (r : List Str) (hg : goodRow G tt r) :
    (r.head?.map (startsWith ['!', '!'])) = ((normRow P tt r).head?.map (startsWith ['!', '!'])) := by
  by_cases hc : cellRow r = true
  · rw [normRow_cells P tt r hc]
    cases r with
    | nil => rfl
    | cons c0 cs =>
      have h0 : startsWith ['!', '!'] c0 = false := by simpa [cellRow] using hc
      simp only [List.zipIdx_cons, List.map_cons, List.head?_cons, Option.map_some, Option.some.injEq]
      rw [h0]
      by_cases hd : dataCell c0 = true
      · exact ((hrt _ 0 c0 hd (hg 0 c0 rfl hd)).2.2.1 rfl h0).symm
      · have : dataCell c0 = false := by simpa using hd
        simp [normCell, this, h0]
  · rw [normRow_other P tt r (by simpa using hc)]

theorem normRow_get (P : CellParser) (tt : TT) (r : List Str) (i : Nat) (c c' : Str) (hr : r[i]? = some c) (hr' : (normRow P tt r)[i]? = some c') :
    c' = c ∨ (cellRow r = true ∧ c' = normCell P (specHdr tt i) i c) := by
  by_cases hc : cellRow r = true
  · rw [normRow_cells P tt r hc] at hr'
    simp only [List.getElem?_map, List.getElem?_zipIdx, Nat.zero_add, hr, Option.map_some, Option.some.injEq] at hr'
    exact Or.inr ⟨hc, hr'.symm⟩
  · rw [normRow_other P tt r (by simpa using hc), hr] at hr'
    cases hr'; exact Or.inl rfl

theorem normRow_length (P : CellParser) (tt : TT) (r : List Str) : (normRow P tt r).length = r.length := by
  unfold normRow; split <;> simp

theorem normRow_same (P : CellParser) (G) (hrt : RT P G) (tt : TT) (r : List Str) (hg : goodRow G tt r) : sameRow r (normRow P tt r) := by
  refine ⟨(normRow_length P tt r).symm, normRow_head P G hrt tt r hg, ?_⟩
  intro i c c' hr hr'
  rcases normRow_get P tt r i c c' hr hr' with h | ⟨_, h⟩
  · rw [h]; intro _; rfl
  · rw [h]; exact normCell_same P G hrt _ i c (hg i c hr)

theorem cellRow_norm (P : CellParser) (G) (hrt : RT P G) (tt : TT) (r : List Str) (hg : goodRow G tt r) : cellRow (normRow P tt r) = cellRow r := by
  have h := normRow_head P G hrt tt r hg
  have hl := normRow_length P tt r
  cases r with
  | nil =>
    cases hn : normRow P tt [] with
    | nil => rfl
    | cons a b => rw [hn] at hl; simp at hl
  | cons c0 cs =>
    cases hn : normRow P tt (c0 :: cs) with
    | nil => rw [hn] at hl; simp at hl
    | cons a b =>
      rw [hn] at h
      simp only [List.head?_cons, Option.map_some, Option.some.injEq] at h
      simp only [cellRow, h]

theorem normRow_idem (P : CellParser) (G) (hrt : RT P G) (tt tt' : TT) (ht : tt.t = tt'.t) (hh : tt.hdrs = tt'.hdrs) (r : List Str)
    (hg : goodRow G tt r) : normRow P tt' (normRow P tt r) = normRow P tt r := by
  have hc' := cellRow_norm P G hrt tt r hg
  by_cases hc : cellRow r = true
  · rw [hc] at hc'
    rw [normRow_cells P tt' _ hc', normRow_cells P tt r hc, zipIdx_map_zipIdx]
    apply List.map_congr_left
    intro ci hm
    show normCell P (specHdr tt' ci.2) ci.2 (normCell P (specHdr tt ci.2) ci.2 ci.1) = _
    rw [← specHdr_congr tt tt' ht hh]
    obtain ⟨c, i⟩ := ci
    have hi : r[i]? = some c := by
      have := List.mem_zipIdx_iff_getElem?.mp hm
      simpa using this
    exact normCell_idem P G hrt _ _ _ (hg i c hi)
  · have : cellRow r = false := by simpa using hc
    rw [this] at hc'
    rw [normRow_other P tt' _ hc']

theorem normRow_good (P : CellParser) (G) (hrt : RT P G) (tt tt' : TT) (ht : tt.t = tt'.t) (hh : tt.hdrs = tt'.hdrs) (r : List Str)
    (hg : goodRow G tt r) : goodRow G tt' (normRow P tt r) := by
  intro i c' hr' hd'
  rw [← specHdr_congr tt tt' ht hh]
  have hlt : i < r.length := by
    rw [← normRow_length P tt r]
    rcases Nat.lt_or_ge i (normRow P tt r).length with h1 | h1
    · exact h1
    · rw [List.getElem?_eq_none_iff.mpr h1] at hr'; cases hr'
  have hr : r[i]? = some r[i] := List.getElem?_eq_getElem hlt
  rcases normRow_get P tt r i _ c' hr hr' with h | ⟨_, h⟩
  · rw [h] at hd' ⊢; exact hg i _ hr hd'
  · rw [h] at hd' ⊢; exact normCell_good P G hrt _ i _ (hg i _ hr) hd'

/-- **C01, text level (partial).**  For every text (any number of lines, any spine structure), every cell parser and every class of cells
    whose exported texts round-trip (`RT`), if the data cells of the text belong to the class: the cell-wise normal form has the same shape as
    the text — same lines, same `**` cells, same spine operators, hence (`C12_isolation`) the same spine paths —, its data cells belong
    to the class again, and it is a fixed point: normalising it again changes nothing. -/
theorem C01_normal_form_fixed_point (P : CellParser) (G) (hrt : RT P G) (rows : List (List Str)) :
    ∀ (tt tt' : TT), tt.t = tt'.t → tt.hdrs = tt'.hdrs → goodRows P G tt rows →
      sameShape rows (normRows P tt rows) ∧ goodRows P G tt' (normRows P tt rows) ∧
      normRows P tt' (normRows P tt rows) = normRows P tt rows := by
  induction rows with
  | nil => intro tt tt' _ _ _; exact ⟨trivial, trivial, rfl⟩
  | cons r rs ih =>
    intro tt tt' ht hh hg
    have hs := normRow_same P G hrt tt r hg.1
    obtain ⟨a, b⟩ := TT_step_congr P tt tt' ht hh r (normRow P tt r) hs
    obtain ⟨i1, i2, i3⟩ := ih (tt.step P r) (tt'.step P (normRow P tt r)) a b hg.2
    refine ⟨⟨hs, i1⟩, ⟨normRow_good P G hrt tt tt' ht hh r hg.1, i2⟩, ?_⟩
    show normRow P tt' (normRow P tt r) :: normRows P (tt'.step P (normRow P tt r)) (normRows P (tt.step P r) rs) = _
    rw [normRow_idem P G hrt tt tt' ht hh r hg.1, i3]
    rfl

theorem C01_normalForm_idem (P : CellParser) (G) (hrt : RT P G) (rows : List (List Str)) (hg : goodRows P G TT.init rows) :
    normalForm P (normalForm P rows) = normalForm P rows ∧ (run (normalForm P rows)).skel = (run rows).skel ∧
    goodRows P G TT.init (normalForm P rows) := by
  obtain ⟨a, g, b⟩ := C01_normal_form_fixed_point P G hrt rows TT.init TT.init rfl rfl hg
  exact ⟨b, (C12_same_skeleton rows _ a).symm, g⟩

/-! ### non-vacuity: a parser and a class that satisfy `RT`, and a text of that class

  the parser that recognises nothing (every data cell becomes an error token or a field comment, exported verbatim) with the class of
  cells without separator characters -/
def P0 : CellParser := fun _ _ => none
def G0 : Option Str → Str → Prop := fun _ c => ∀ x ∈ c, (x != Tokz.tokSep) = true ∧ (x != Tokz.decSep) = true

theorem strip_good (c : Str) (h : ∀ x ∈ c, (x != Tokz.tokSep) = true ∧ (x != Tokz.decSep) = true) : Tokz.strip c = c := by
  unfold Tokz.strip removeC
  rw [List.filter_eq_self.mpr (fun x hx => (h x hx).1), List.filter_eq_self.mpr (fun x hx => (h x hx).2)]

theorem normCell_P0 (h : Option Str) (i : Nat) (c : Str) (hd : dataCell c = true) (hg : G0 h c) :
    normCell P0 h i c = if c.isEmpty then ['.'] else c := by
  have hd' := hd
  simp only [dataCell, Bool.and_eq_true, Bool.not_eq_true'] at hd'
  have hh : startsWith ['*', '*'] c = false := hd'.1
  have key : ∀ (k : TokClass) (cat : Cat), Hier.isChild hierarchy .SIGNATURES cat = false →
      outText (.simple k c cat false) = if c.isEmpty then ['.'] else c := by
    intro k cat hcat
    simp only [outText, cellOfTok, Tok.hidden, Bool.false_eq_true, if_false, hdrAdj, Tokz.tokenize, Tokz.exportTok, Tok.enc, Except.map,
      strip_good c hg, phOf, Tok.cat, hcat]
  unfold normCell
  simp only [hd, if_true, cellTok, hh, hd'.2, Bool.false_eq_true, if_false]
  by_cases hb : startsWith ['!'] c = true
  · simp only [hb, if_true]; exact key _ _ (by decide +kernel)
  · simp only [hb, Bool.false_eq_true, if_false]
    cases h <;> exact key _ _ (by decide +kernel)

theorem RT_P0 : RT P0 G0 := by
  intro h i c hd hg
  rw [normCell_P0 h i c hd hg]
  by_cases he : c.isEmpty = true
  · simp only [he, if_true]
    have hd1 : dataCell ['.'] = true := by decide +kernel
    have hg1 : G0 h ['.'] := by intro x hx; simp at hx; subst hx; decide +kernel
    refine ⟨hd1, hg1, fun _ _ => by decide +kernel, ?_⟩
    rw [normCell_P0 h i _ hd1 hg1]; rfl
  · simp only [he, Bool.false_eq_true, if_false]
    refine ⟨hd, hg, fun _ h0 => h0, ?_⟩
    rw [normCell_P0 h i c hd hg]; simp [he]

theorem goodRows_G0 (rows : List (List Str)) (h : ∀ r ∈ rows, ∀ c ∈ r, ∀ x ∈ c, (x != Tokz.tokSep) = true ∧ (x != Tokz.decSep) = true) :
    ∀ tt, goodRows P0 G0 tt rows := by
  induction rows with
  | nil => intro _; trivial
  | cons r rs ih =>
    intro tt
    refine ⟨?_, ih (fun r' hr' => h r' (List.mem_cons_of_mem _ hr')) _⟩
    intro i c hr _
    exact h r (List.mem_cons_self) c (List.mem_of_getElem? hr)

def toyText : List (List Str) := C02K.toyRows ++ [[[], ['a', 'b']]]

/-- the toy text of `C02Tok` (a split, a join, a field comment) with a line that has an empty cell is of the class, so its normal form is a
    fixed point with the same spine paths -/
example : normalForm P0 (normalForm P0 toyText) = normalForm P0 toyText ∧ (run (normalForm P0 toyText)).skel = (run toyText).skel :=
  let h := C01_normalForm_idem P0 G0 RT_P0 toyText (goodRows_G0 _ (by decide +kernel) _)
  ⟨h.1, h.2.1⟩

/-- and the normal form really rewrites something: the empty cell becomes the null token -/
example : normalForm P0 [[['*', '*', 'a']], [[]]] = [[['*', '*', 'a']], [['.']]] := by decide +kernel
end KM.C01N
