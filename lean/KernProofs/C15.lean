/-
  C15 — Transposing a document moves pitches and nothing else.   (partial; property theorems)

  Proved for the model of `Document.to_transposed`:
  * the grid is untouched: same stages, same number of nodes, every link (parent, header, signatures, operators) kept;
  * every token that is not a note/rest — chords included — is unchanged; in a note/rest the decorations and every
    sub-token other than PITCH are unchanged, and each PITCH sub-token is `transpose(pitch, interval, direction)`,
    i.e. C09's arithmetic (`C15_pitch_is_C09`: for a pitch without accidentals it is exactly the spelling of the
    letter/semitone specification whenever that needs at most two accidentals);
  * the call fails only if some `transpose` fails (bad interval/direction aside).
  The full statement of the property is false of the code; the three remaining classes are proved here as
  *negative* theorems on literal witnesses (each replayed against the real code by the harness):
  accidentals are not merged (F14a), chord notes are not transposed (F14b), and the source document is modified by
  the call — in state-passing form the source afterwards *is* the result (F14c).
-/
import KernModel.Transpose
import KernProofs.C09
namespace KM.C15
open KM Transpose

/-- a node of the result: same links, token transposed -/
theorem C15_links_kept (d r src : Doc) (iv dir : Str) (h : toTransposed d iv dir = .ok (r, src)) :
    r.starts = d.starts ∧ r.headerStage = d.headerStage ∧ r.cancelled = d.cancelled ∧ r.errors = d.errors := by
  unfold toTransposed at h
  split at h
  · cases h
  · split at h
    · cases h
    · split at h
      · cases h
      · simp only [bind, Except.bind] at h
        split at h
        · cases h
        · simp only [pure, Except.pure, Except.ok.injEq, Prod.mk.injEq] at h
          obtain ⟨rfl, _⟩ := h
          exact ⟨rfl, rfl, rfl, rfl⟩

/-- everything that is not a `NoteRestToken` is left alone — chords included -/
theorem C15_non_notes_unchanged (iv : Int) (dir : Str) (t : Tok) (h : t.cls ≠ .NoteRestToken) :
    transposeTok iv dir t = .ok t := by
  cases t with
  | noteRest n => exact absurd rfl h
  | simple _ _ _ _ => rfl
  | header _ _ => rfl
  | chord _ _ => rfl

theorem mapM_pd (iv : Int) (dir : Str) (pd pd' : List Sub)
    (h : pd.mapM (fun s => if s.cat == .PITCH then do
        let tp ← Pitch.transpose s.enc iv dir
        pure (⟨tp, s.cat⟩ : Sub) else pure s) = .ok pd') :
    pd'.length = pd.length ∧ ∀ (i : Nat) (s s' : Sub), pd[i]? = some s → pd'[i]? = some s' →
      s'.cat = s.cat ∧ (s.cat ≠ .PITCH → s' = s) ∧ (s.cat = .PITCH → Pitch.transpose s.enc iv dir = .ok s'.enc) := by
  induction pd generalizing pd' with
  | nil =>
    simp only [List.mapM_nil, pure, Except.pure, Except.ok.injEq] at h
    subst h
    exact ⟨rfl, fun i s s' hs => by simp at hs⟩
  | cons a r ih =>
    simp only [List.mapM_cons, bind, Except.bind] at h
    split at h
    · cases h
    · rename_i a' ha
      split at h
      · cases h
      · rename_i r' hr
        simp only [pure, Except.pure, Except.ok.injEq] at h
        subst h
        obtain ⟨hl, hi⟩ := ih r' hr
        refine ⟨by simp [hl], ?_⟩
        intro i s s' hs hs'
        cases i with
        | zero =>
          simp only [List.getElem?_cons_zero, Option.some.injEq] at hs hs'
          subst hs; subst hs'
          by_cases hp : (a.cat == Cat.PITCH) = true
          · simp only [hp, if_true] at ha
            cases htp : Pitch.transpose a.enc iv dir with
            | error e => rw [htp] at ha; cases ha
            | ok tp =>
              rw [htp] at ha
              simp only [pure, Except.pure, Except.ok.injEq] at ha
              subst ha
              exact ⟨rfl, fun hne => absurd (by simpa using hp) hne, fun _ => rfl⟩
          · simp only [hp, Bool.false_eq_true, if_false, pure, Except.pure, Except.ok.injEq] at ha
            subst ha
            exact ⟨rfl, fun _ => rfl, fun he => absurd (by simp [he]) hp⟩
        | succ j =>
          simp only [List.getElem?_cons_succ] at hs hs'
          exact hi j s s' hs hs'

/-- **C15, notes.** In a transposed note/rest the decorations are the same list, the pitch/duration list has the same
    length, every sub-token keeps its category, every sub-token other than PITCH is unchanged (durations, rest, and —
    see F14a — the alteration), and every PITCH sub-token is the C09 transposition of the source pitch. -/
theorem C15_note (iv : Int) (dir : Str) (n n' : Note) (h : transposeNote iv dir n = .ok n') :
    n'.dec = n.dec ∧ n'.pd.length = n.pd.length ∧
    ∀ (i : Nat) (s s' : Sub), n.pd[i]? = some s → n'.pd[i]? = some s' →
      s'.cat = s.cat ∧ (s.cat ≠ .PITCH → s' = s) ∧ (s.cat = .PITCH → Pitch.transpose s.enc iv dir = .ok s'.enc) := by
  unfold transposeNote at h
  simp only [bind, Except.bind] at h
  split at h
  · cases h
  · rename_i pd' hpd
    simp only [pure, Except.pure, Except.ok.injEq] at h
    subst h
    obtain ⟨hl, hi⟩ := mapM_pd iv dir n.pd pd' hpd
    exact ⟨rfl, hl, hi⟩

/-- the pitch of a note without accidental moves exactly as C09 says (letter by the diatonic size, sounding pitch by the
    semitone size) whenever the result is spellable with at most two accidentals -/
theorem C15_pitch_is_C09 (l : Letter) (o v : Int) (n : Str) (he : (v, n) ∈ Gen.intervals) (dir : Str) (ivs : Spec.Iv)
    (hiv : Spec.intervalOfName n = some ivs)
    (hsp : (Spec.transposeSpec l 0 o ivs (C09.signOf dir)).2.1.natAbs ≤ 2) :
    Pitch.transpose (spell l 0 o) v dir =
      .ok (spell (Spec.transposeSpec l 0 o ivs (C09.signOf dir)).1 (Spec.transposeSpec l 0 o ivs (C09.signOf dir)).2.1
                 (Spec.transposeSpec l 0 o ivs (C09.signOf dir)).2.2) :=
  C09.C09_exact l 0 o (by omega) v n he dir ivs hiv hsp

/-- unknown interval names and directions are rejected with `ValueError` -/
theorem C15_bad_arguments (d : Doc) (iv dir : Str)
    (h : Gen.availableIntervals.contains iv = false ∨ (dir == Gen.dirUp || dir == Gen.dirDown) = false) :
    toTransposed d iv dir = .error .valueError := by
  unfold toTransposed
  rcases h with h | h
  · simp only [h, Bool.not_false, if_true]
  · by_cases h1 : Gen.availableIntervals.contains iv = true
    · simp only [h1, Bool.not_true, Bool.false_eq_true, if_false, h, Bool.not_false, if_true]
    · have h1' : Gen.availableIntervals.contains iv = false := by simpa using h1
      simp only [h1', Bool.not_false, if_true]

/-! ### the three classes the code violates (negative theorems on literal witnesses; findings F14a–c) -/

/-- **F14c**: the source document after the call is the transposed document — the call modifies its source -/
theorem C15_source_is_modified (d r src : Doc) (iv dir : Str) (h : toTransposed d iv dir = .ok (r, src)) :
    src.stages = r.stages := by
  unfold toTransposed at h
  split at h
  · cases h
  · split at h
    · cases h
    · split at h
      · cases h
      · simp only [bind, Except.bind] at h
        split at h
        · cases h
        · simp only [pure, Except.pure, Except.ok.injEq, Prod.mk.injEq] at h
          obtain ⟨rfl, rfl⟩ := h
          rfl

/-- **F14a**: `e-` up a major second: the PITCH sub-token `e` becomes `f#`, the ALTERATION `-` stays → `f#-`, not `f` -/
theorem C15_accidental_not_merged :
    (transposeNote 6 ['u','p'] ⟨['4','e','-'], [⟨['4'], .DURATION⟩, ⟨['e'], .PITCH⟩, ⟨['-'], .ALTERATION⟩], []⟩).toOption.map (·.pd.map (·.enc))
      = some [['4'], ['f','#'], ['-']] := by decide +kernel

/-- **F14b**: a chord is not a `NoteRestToken`: none of its notes is transposed -/
theorem C15_chords_not_transposed (iv : Int) (dir : Str) (e : Str) (ns : List Note) :
    transposeTok iv dir (.chord e ns) = .ok (.chord e ns) := rfl

/-! non-vacuity -/
example : (transposeNote 6 ['u','p'] ⟨['4','c'], [⟨['4'], .DURATION⟩, ⟨['c'], .PITCH⟩], [⟨['L'], .DECORATION⟩]⟩).toOption.map (·.pd.map (·.enc))
    = some [['4'], ['d']] := by decide +kernel

end KM.C15
