/-
  C11 — Category algebra follows the documented tree.   (property theorems; lemmas live elsewhere)

  Everything here is about `hierarchy`, the forest regenerated from /repo's
  `TokenCategoryHierarchyMapper.hierarchy` on this run, and `readmeForest`, regenerated from README.md.
-/
import KernModel.Cat
import KernModel.Spec.CatTree
import KernProofs.Lemmas.Fin
namespace KM.C11
open KM Hier Spec

/-! ### (0) the tie: every generated name is one of the 37 categories, with its enum value -/

theorem categories_table : Gen.categories = Cat.all.map (fun c => (c.name, c.value)) := by
  decide +kernel

theorem hierarchy_names_known : (convForest Gen.hierarchy).isSome = true := by decide +kernel
theorem readme_names_known : (convForest Gen.readmeTree).isSome = true := by decide +kernel

/-! ### (1) forest: each category exactly once; equal to the documented tree -/

/-- parent of `c` in a forest, found by walking it -/
def parentInAux (c : Cat) : Nat → Forest → Option Cat
  | 0, _ => none
  | n + 1, f => firstSome (fun t =>
      if t.kids.any (fun k => k.root == c) then some t.root else parentInAux c n t.kids) f

def parentIn (f : Forest) (c : Cat) : Option Cat := parentInAux c 8 f

theorem C11_forest_each_once :
    (allNodes hierarchy).length = 37 ∧ (allNodes hierarchy).Nodup ∧ ∀ c, c ∈ allNodes hierarchy := by
  refine ⟨by decide +kernel, by decide +kernel, ?_⟩
  intro c
  have h : Cat.all.all (fun c => (allNodes hierarchy).contains c) = true := by decide +kernel
  simpa using Cat.forall_of_all h c

theorem C11_matches_documented_tree (c : Cat) :
    parentIn hierarchy c = Spec.parent c ∧ parentIn readmeForest c = Spec.parent c
    ∧ (c ∈ hierarchy.map RTree.root ↔ Spec.parent c = none) := by
  have h : Cat.all.all (fun c => parentIn hierarchy c == Spec.parent c
      && parentIn readmeForest c == Spec.parent c
      && ((hierarchy.map RTree.root).contains c == (Spec.parent c).isNone)) = true := by decide +kernel
  have := Cat.forall_of_all h c
  simp only [Bool.and_eq_true, beq_iff_eq] at this
  refine ⟨this.1.1, this.1.2, ?_⟩
  have h3 := this.2
  cases hp : Spec.parent c <;> simp_all

theorem readme_each_once :
    (allNodes readmeForest).length = 37 ∧ (allNodes readmeForest).Nodup := by
  exact ⟨by decide +kernel, by decide +kernel⟩

/-! ### (2) descendant test, children, nodes, leaves agree with the tree (all 37 / 37×37) -/

theorem C11_is_child (a b : Cat) : isChild hierarchy a b = Spec.isDescOrSelf a b := by
  have h : Cat.all.all (fun a => Cat.all.all (fun b =>
      isChild hierarchy a b == Spec.isDescOrSelf a b)) = true := by decide +kernel
  simpa using Cat.forall2_of_all h a b

theorem C11_nodes (a x : Cat) : x ∈ nodes hierarchy a ↔ a ∈ Spec.ancestors x := by
  have h : Cat.all.all (fun a => Cat.all.all (fun x =>
      (nodes hierarchy a).contains x == (Spec.ancestors x).contains a)) = true := by decide +kernel
  have := Cat.forall2_of_all h a x
  simp only [beq_iff_eq] at this
  constructor
  · intro hx
    have : (Spec.ancestors x).contains a = true := by rw [← this]; simpa using hx
    simpa using this
  · intro hx
    have : (nodes hierarchy a).contains x = true := by rw [this]; simpa using hx
    simpa using this

theorem C11_nodes_nodup (a : Cat) : (nodes hierarchy a).Nodup := by
  have h : Cat.all.all (fun a => decide (nodes hierarchy a).Nodup) = true := by decide +kernel
  simpa using Cat.forall_of_all h a

theorem C11_children (a x : Cat) : x ∈ children hierarchy a ↔ Spec.parent x = some a := by
  have h : Cat.all.all (fun a => Cat.all.all (fun x =>
      (children hierarchy a).contains x == (Spec.parent x == some a))) = true := by decide +kernel
  have := Cat.forall2_of_all h a x
  simp only [beq_iff_eq] at this
  constructor
  · intro hx
    have h2 : (children hierarchy a).contains x = true := by simpa using hx
    rw [this] at h2; simpa using h2
  · intro hx
    have h2 : (Spec.parent x == some a) = true := by simpa using hx
    rw [← this] at h2; simpa using h2

theorem C11_leaves (a x : Cat) :
    x ∈ leaves hierarchy a ↔ (a ∈ Spec.ancestors x ∧ Spec.isLeaf x = true) := by
  have h : Cat.all.all (fun a => Cat.all.all (fun x =>
      (leaves hierarchy a).contains x == ((Spec.ancestors x).contains a && Spec.isLeaf x))) = true := by
    decide +kernel
  have := Cat.forall2_of_all h a x
  simp only [beq_iff_eq] at this
  constructor
  · intro hx
    have h2 : (leaves hierarchy a).contains x = true := by simpa using hx
    rw [this] at h2; simpa using h2
  · intro hx
    have h2 : ((Spec.ancestors x).contains a && Spec.isLeaf x) = true := by simpa using hx
    rw [← this] at h2; simpa using h2

/-- `all()` is every category. -/
theorem C11_all (x : Cat) : x ∈ allNodes hierarchy := C11_forest_each_once.2.2 x

/-! ### (3) the selected set, for arbitrary include / exclude collections (unbounded) -/

theorem mem_expand (s : List Cat) (x : Cat) :
    x ∈ expand hierarchy s ↔ Spec.inClosure s x = true := by
  unfold expand Spec.inClosure Spec.isDescOrSelf
  simp only [List.mem_flatMap, List.mem_cons, List.any_eq_true, Bool.or_eq_true, beq_iff_eq,
    List.contains_iff_mem, C11_nodes]
  constructor
  · rintro ⟨c, hc, h | h⟩
    · exact ⟨c, hc, Or.inl h.symm⟩
    · exact ⟨c, hc, Or.inr h⟩
  · rintro ⟨c, hc, h | h⟩
    · exact ⟨c, hc, Or.inl h.symm⟩
    · exact ⟨c, hc, Or.inr h⟩

theorem mem_validSets (i e : List Cat) (x : Cat) :
    x ∈ validSets hierarchy i e ↔ (Spec.inClosure i x = true ∧ Spec.inClosure e x = false) := by
  unfold validSets
  simp only [List.mem_filter, Bool.not_eq_true', mem_expand]
  constructor
  · rintro ⟨h1, h2⟩
    refine ⟨h1, ?_⟩
    cases hc : Spec.inClosure e x
    · rfl
    · have : x ∈ expand hierarchy e := (mem_expand e x).mpr hc
      have : (expand hierarchy e).contains x = true := by simpa using this
      rw [this] at h2; cases h2
  · rintro ⟨h1, h2⟩
    refine ⟨h1, ?_⟩
    cases hc : (expand hierarchy e).contains x
    · rfl
    · have : x ∈ expand hierarchy e := by simpa using hc
      rw [(mem_expand e x).mp this] at h2; cases h2

/-- Python-level view of a validated argument: `None` or a collection of categories. -/
def Arg.cats? : Arg → Option (List Cat)
  | .none => none
  | a => some (a.elems.filterMap id)

def Arg.wellTyped (a : Arg) : Bool := a.elems.all Option.isSome

theorem inClosure_all (x : Cat) : Spec.inClosure (allNodes hierarchy) x = true := by
  unfold Spec.inClosure Spec.isDescOrSelf
  simp only [List.any_eq_true, Bool.or_eq_true, beq_iff_eq]
  exact ⟨x, C11_all x, Or.inl rfl⟩

/-- **C11, selected set.** For every include / exclude argument of any of the four kinds whose elements
    are categories, `valid` succeeds and selects exactly the include categories with all their descendants
    minus the exclude categories with all theirs (`None` ↦ everything / nothing). -/
theorem C11_valid (inc exc : Arg) (hi : Arg.wellTyped inc = true) (he : Arg.wellTyped exc = true) :
    ∃ v, valid hierarchy inc exc = .ok v ∧
      ∀ x, x ∈ v ↔ x ∈ Spec.selected (Arg.cats? inc) (Arg.cats? exc) := by
  have hinc : ∃ i, validateInclude hierarchy inc = .ok i ∧
      ∀ x, Spec.inClosure i x = (match Arg.cats? inc with | none => true | some S => Spec.inClosure S x) := by
    cases inc with
    | none => exact ⟨_, rfl, fun x => by simp [Arg.cats?, inClosure_all]⟩
    | single c => exact ⟨_, by unfold Arg.wellTyped at hi; simp only [validateInclude]; rw [if_pos hi], fun x => rfl⟩
    | list cs => exact ⟨_, by unfold Arg.wellTyped at hi; simp only [validateInclude]; rw [if_pos hi], fun x => rfl⟩
    | tuple cs => exact ⟨_, by unfold Arg.wellTyped at hi; simp only [validateInclude]; rw [if_pos hi], fun x => rfl⟩
    | set cs => exact ⟨_, by unfold Arg.wellTyped at hi; simp only [validateInclude]; rw [if_pos hi], fun x => rfl⟩
  have hexc : ∃ e, validateExclude exc = .ok e ∧
      ∀ x, Spec.inClosure e x = (match Arg.cats? exc with | none => false | some S => Spec.inClosure S x) := by
    cases exc with
    | none => exact ⟨[], rfl, fun x => by simp [Arg.cats?, Spec.inClosure]⟩
    | single c => exact ⟨_, by unfold Arg.wellTyped at he; simp only [validateExclude]; rw [if_pos he], fun x => rfl⟩
    | list cs => exact ⟨_, by unfold Arg.wellTyped at he; simp only [validateExclude]; rw [if_pos he], fun x => rfl⟩
    | tuple cs => exact ⟨_, by unfold Arg.wellTyped at he; simp only [validateExclude]; rw [if_pos he], fun x => rfl⟩
    | set cs => exact ⟨_, by unfold Arg.wellTyped at he; simp only [validateExclude]; rw [if_pos he], fun x => rfl⟩
  obtain ⟨i, hi1, hi2⟩ := hinc
  obtain ⟨e, he1, he2⟩ := hexc
  refine ⟨validSets hierarchy i e, by simp [valid, hi1, he1, bind, Except.bind, pure, Except.pure], ?_⟩
  intro x
  rw [mem_validSets, hi2, he2]
  unfold Spec.selected
  simp only [List.mem_filter, Cat.mem_all, true_and, Bool.and_eq_true, Bool.not_eq_true']
  cases Arg.cats? inc <;> cases Arg.cats? exc <;> simp

theorem validateInclude_err (a : Arg) (h : Arg.wellTyped a = false) :
    validateInclude hierarchy a = .error .valueError := by
  cases a with
  | none => simp [Arg.wellTyped, Arg.elems] at h
  | single c => unfold Arg.wellTyped at h; simp only [validateInclude]; rw [if_neg (by rw [h]; decide)]
  | list cs => unfold Arg.wellTyped at h; simp only [validateInclude]; rw [if_neg (by rw [h]; decide)]
  | tuple cs => unfold Arg.wellTyped at h; simp only [validateInclude]; rw [if_neg (by rw [h]; decide)]
  | set cs => unfold Arg.wellTyped at h; simp only [validateInclude]; rw [if_neg (by rw [h]; decide)]

theorem validateExclude_err (a : Arg) (h : Arg.wellTyped a = false) :
    validateExclude a = .error .valueError := by
  cases a with
  | none => simp [Arg.wellTyped, Arg.elems] at h
  | single c => unfold Arg.wellTyped at h; simp only [validateExclude]; rw [if_neg (by rw [h]; decide)]
  | list cs => unfold Arg.wellTyped at h; simp only [validateExclude]; rw [if_neg (by rw [h]; decide)]
  | tuple cs => unfold Arg.wellTyped at h; simp only [validateExclude]; rw [if_neg (by rw [h]; decide)]
  | set cs => unfold Arg.wellTyped at h; simp only [validateExclude]; rw [if_neg (by rw [h]; decide)]

theorem validateInclude_ok (a : Arg) (h : Arg.wellTyped a = true) :
    ∃ i, validateInclude hierarchy a = .ok i := by
  cases a with
  | none => exact ⟨_, rfl⟩
  | single c => unfold Arg.wellTyped at h; exact ⟨_, by simp only [validateInclude]; rw [if_pos h]⟩
  | list cs => unfold Arg.wellTyped at h; exact ⟨_, by simp only [validateInclude]; rw [if_pos h]⟩
  | tuple cs => unfold Arg.wellTyped at h; exact ⟨_, by simp only [validateInclude]; rw [if_pos h]⟩
  | set cs => unfold Arg.wellTyped at h; exact ⟨_, by simp only [validateInclude]; rw [if_pos h]⟩

/-- an element that is not a category is rejected with `ValueError` -/
theorem C11_valid_rejects (inc exc : Arg) (h : Arg.wellTyped inc = false ∨ Arg.wellTyped exc = false) :
    valid hierarchy inc exc = .error .valueError := by
  cases hi : Arg.wellTyped inc
  · simp [valid, validateInclude_err inc hi, bind, Except.bind]
  · have he : Arg.wellTyped exc = false := by
      rcases h with h | h
      · rw [hi] at h; cases h
      · exact h
    obtain ⟨i, hi'⟩ := validateInclude_ok inc hi
    simp [valid, hi', validateExclude_err exc he, bind, Except.bind]

/-- **C11, match.** `match` is true exactly when the category or one of its descendants is selected. -/
theorem C11_match (c : Cat) (inc exc : Arg) (hi : Arg.wellTyped inc = true) (he : Arg.wellTyped exc = true) :
    Hier.match hierarchy c inc exc = .ok (Spec.matchSel c (Arg.cats? inc) (Arg.cats? exc)) := by
  obtain ⟨v, hv, hmem⟩ := C11_valid inc exc hi he
  have hv' : ∃ i e, validateInclude hierarchy inc = .ok i ∧ validateExclude exc = .ok e ∧ v = validSets hierarchy i e := by
    unfold valid at hv
    cases h1 : validateInclude hierarchy inc with
    | error _ => simp [h1, bind, Except.bind] at hv
    | ok i =>
      cases h2 : validateExclude exc with
      | error _ => simp [h1, h2, bind, Except.bind] at hv
      | ok e =>
        simp [h1, h2, bind, Except.bind, pure, Except.pure] at hv
        exact ⟨i, e, rfl, rfl, hv.symm⟩
  obtain ⟨i, e, h1, h2, rfl⟩ := hv'
  simp only [Hier.match, h1, h2, bind, Except.bind, pure, Except.pure]
  congr 1
  rw [Bool.eq_iff_iff]
  unfold Spec.matchSel
  simp only [List.any_eq_true, List.contains_iff_mem, hmem, List.mem_cons]
  constructor
  · rintro ⟨y, hy | hy, hsel⟩
    · exact ⟨y, hsel, by simp [Spec.isDescOrSelf, hy]⟩
    · exact ⟨y, hsel, by simp [Spec.isDescOrSelf, (C11_nodes c y).mp hy]⟩
  · rintro ⟨y, hsel, hd⟩
    refine ⟨y, ?_, hsel⟩
    simp only [Spec.isDescOrSelf, Bool.or_eq_true, beq_iff_eq, List.contains_iff_mem] at hd
    rcases hd with hd | hd
    · exact Or.inl hd.symm
    · exact Or.inr ((C11_nodes c y).mpr hd)

/-! ### (4) the result does not depend on the kind of collection, its order or repetitions -/

theorem C11_kind_independent (cs : List (Option Cat)) (exc : Arg) :
    valid hierarchy (.list cs) exc = valid hierarchy (.tuple cs) exc ∧
    valid hierarchy (.list cs) exc = valid hierarchy (.set cs) exc ∧
    (∀ c, valid hierarchy (.single c) exc = valid hierarchy (.list [c]) exc) ∧
    (∀ inc, valid hierarchy inc (.list cs) = valid hierarchy inc (.tuple cs) ∧
            valid hierarchy inc (.list cs) = valid hierarchy inc (.set cs)) := by
  refine ⟨rfl, rfl, fun _ => rfl, fun inc => ⟨?_, ?_⟩⟩ <;> rfl

theorem inClosure_congr {S S' : List Cat} (h : ∀ s, s ∈ S ↔ s ∈ S') (x : Cat) :
    Spec.inClosure S x = Spec.inClosure S' x := by
  rw [Bool.eq_iff_iff]
  simp only [Spec.inClosure, List.any_eq_true]
  constructor
  · rintro ⟨s, hs, h2⟩; exact ⟨s, (h s).mp hs, h2⟩
  · rintro ⟨s, hs, h2⟩; exact ⟨s, (h s).mpr hs, h2⟩

/-- Two include (resp. exclude) collections with the same members select the same set. -/
theorem C11_set_semantics (I I' E E' : List Cat) (hI : ∀ s, s ∈ I ↔ s ∈ I') (hE : ∀ s, s ∈ E ↔ s ∈ E') (x : Cat) :
    x ∈ validSets hierarchy I E ↔ x ∈ validSets hierarchy I' E' := by
  rw [mem_validSets, mem_validSets, inClosure_congr hI, inClosure_congr hE]

/-! ### non-vacuity: concrete arguments meet the hypotheses and give a non-trivial answer -/

example : Arg.wellTyped (.list [some .NOTE_REST]) = true ∧ Arg.wellTyped (.set [some .DURATION, some .REST]) = true := by
  decide
example : (valid hierarchy (.list [some .NOTE_REST]) (.single (some .DURATION))).toOption.map (·.map Cat.value)
    = some [6, 7, 9, 11, 10, 12] := by decide +kernel
example : (Hier.match hierarchy .CORE (.single (some .PITCH)) .none).toOption = some true := by decide +kernel
example : isChild hierarchy .NOTE_REST .PITCH = true ∧ isChild hierarchy .PITCH .NOTE_REST = false := by
  decide +kernel

end KM.C11
