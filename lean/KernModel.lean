import KernModel.Basic
import KernModel.Cat
import KernModel.Spec.CatTree
import KernModel.Pitch
import KernModel.Spec.Interval
import KernModel.Gkern
import KernModel.Token
import KernModel.SpineImporters
