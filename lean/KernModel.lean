import KernModel.Basic
import KernModel.Cat
import KernModel.Spec.CatTree
